#!/usr/bin/env python3
"""Regenerates MANIFEST.json from the table below (kept in one place so it stays valid)."""
import json, sys

MC = "model_checking"
CHECKS = {
 "C01": dict(level=MC,
   technique="explicit-state BFS over word sequences (bounded exhaustive), real parser vs independent reference recogniser",
   text="Every word sequence up to the bound over an 11-word alphabet (all operator spellings, parentheses, a nullary test, an argument-taking test, an action) is parsed by the real parser and by an independent recursive-descent recogniser; acceptance and the tree must agree on every one. Exhaustive within the bound, so every dangling operator / unbalanced parenthesis / leftover-word junction of that size is covered.",
   note="Trusted: the reference grammar in harness/speclib/src/grammar.rs (self-validated each run by a counting recurrence and a print/parse round trip); words joined by one space.",
   design="§4 C01"),
 "C05": dict(level=MC,
   technique="bounded exhaustive enumeration of (keyword, argument member / single-character corruption / missing argument / glued suffix / mangled keyword) x context, real parser vs text-level reference parser",
   text="For all 55 vocabulary keywords, every member of a boundary-rich menu of its argument language, every single-character corruption of each member at every position, every missing-argument form, and the complete keyword x keyword glue matrix are parsed by the real parser and by an independent text-level reference (word splitting, vocabulary table, argument languages, tree). Node, argument values, embedding in the surrounding tree and rejection must agree on every input.",
   note="Trusted: vocabulary table and argument languages of harness/speclib/src/textspec.rs. Inputs in the unspecified classes of DESIGN.md §2.3 are skipped and counted. One known finding (glued tokens).",
   design="§4 C05"),
 "C06": dict(level=MC,
   technique="deviation-bounded exhaustive exploration (0,1,2 spelling deviations at every site) over all grammar sentences up to a size; metamorphic oracle against the canonical spelling",
   text="Every sentence of the operator grammar up to the bound (5 kinds of primary) is rendered canonically and with every choice of up to two simultaneous insignificant spelling deviations (blank kind/amount at each gap and at both ends, -a/-and/implicit, -o/-or, redundant parentheses spaced/tight/double, quoting style of string arguments) plus all-sites-at-once variants; options and tree must be identical to the canonical spelling's. All blank-only inputs up to length 4 must equal -true.",
   note="Trusted: the list of spelling differences find defines as insignificant (DESIGN.md §4 C06); quoting of numeric arguments is never varied.",
   design="§4 C06"),
 "C13": dict(level=MC,
   technique="bounded exhaustive insertion of option words at every word boundary of 24 base expressions; real parser vs reference last-wins/leading-run/-true model; thread argument read back from the emitted scan call",
   text="Every insertion of up to 2 (thorough: 3, plus all leading runs of 4) option words at every word boundary of 24 base expressions is parsed by the real parser and the text-level reference: returned options must be the last-wins fold, the tree must be the base with non-leading options read as -true and no option node, and after compile the scan call's fifth argument must be the requested thread count or the runtime default.",
   note="Trusted: reference option semantics in textspec.rs; Scheme reader in speclib/src/scm/reader.rs. -maxdepth/-mindepth may be refused with an error.",
   design="§4 C13"),
 "C14": dict(level=MC,
   technique="explicit-state BFS over format strings (every string up to length 5/6 over 16 symbols), real element list vs independent scanner",
   text="Every format string up to the length bound over a 16-symbol alphabet containing the percent sign, backslash, braces, colon, digits (octal and non-octal) and directive/escape letters, plus every documented directive and escape alone and in context, is parsed through -printf and the returned element list compared with an independent scanner of the mini-language (after merging self-standing backslashes into text); empty or adjacent literals are violations; an undocumented directive must make the input an error.",
   note="Trusted: directive/escape tables and the three-digit octal rule in textspec.rs::format. Unspecified classes (1-2 digit octal, undocumented time selector, flags/width) are skipped and counted.",
   design="§4 C14"),
 "C18": dict(level=MC,
   technique="bounded exhaustive product (prefix x keyword x argument position x missing/invalid word x suffix; base x unknown word x suffix), textual oracle on the error's Display output",
   text="For every argument-taking keyword and argument position: the argument missing at the end and before a closing parenthesis, and every word of a menu that is invalid from its first character for that argument language, under 4 prefixes and 3 suffixes; plus unknown words at every position of 6 bases. The error text must be non-empty, name the keyword, quote the offending word (empty when missing) and quote nothing that is not in the input.",
   note="A word counts as quoted between a pair of backquote, quote or double-quote characters. One known finding (keyword-prefixed unknown words).",
   design="§4 C18"),
}
PENDING = {f"C{n:02d}": "check not built yet (work in progress; see DESIGN.md §7 order of work)" for n in range(1, 21)}

def main():
    checks = []
    for pid, c in sorted(CHECKS.items()):
        checks.append({
            "property_id": pid,
            "quick_cmd": f"./check {pid} --tier quick",
            "thorough_cmd": f"./check {pid} --tier thorough",
            "evidence_file": f"/verif/evidence/{pid}.json",
            "replay_cmd_template": f"./check {pid} --replay {{path}}",
            "engine": "fpverif",
            "level_claimed": {"category": c["level"], "text": c["text"], "design_ref": c["design"]},
            "level_note": c["note"],
            "technique": c["technique"],
        })
    na = [{"property_id": p, "reason": r} for p, r in sorted(PENDING.items()) if p not in CHECKS]
    m = {
        "version": 1,
        "setup_cmd": "./setup.sh",
        "hooks": {
            "guard": "lipe_find_parser_verif",
            "enable": "none needed: every property is observed at the public API; the name is reserved (RUSTFLAGS=--cfg lipe_find_parser_verif) and no source commit uses it",
            "baseline_off_cmd": "cd /repo && cargo test --workspace --no-fail-fast --offline",
            "source_commits": [],
            "add_only": True,
        },
        "engines": [
            {"name": "fpverif", "path": "/verif/harness", "serves_properties": sorted(CHECKS.keys()),
             "kind_free_text": "Rust harness (speclib: reference models, Guile reader/evaluator/LiPE runtime model, explorer; fpverif: property modules driving the real parse/compile/scheme). Bounded exhaustive explicit-state exploration; stateright + shuttle for C16."},
        ],
        "checks": checks,
        "not_applicable": na,
        "notes": "Entry point ./check <ID> --tier quick|thorough [--replay FILE]; exit 0 held / 1 VIOLATION / 2 MACHINERY-ERROR. Known findings: /verif/known_findings.json (read-only at run time).",
    }
    json.dump(m, open("/verif/MANIFEST.json", "w"), indent=1)
    print("MANIFEST.json written:", len(checks), "checks,", len(na), "not claimed")

main()
