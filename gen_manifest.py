#!/usr/bin/env python3
"""Regenerates MANIFEST.json from the table below (kept in one place so it stays valid)."""
import json, sys

MC = "model_checking"
CHECKS = {
 "C01": dict(level=MC,
   technique="explicit-state BFS over word sequences (bounded exhaustive), real parser vs independent reference recogniser",
   text="Every word sequence up to the bound over an 11-word alphabet (all operator spellings, parentheses, a nullary test, an argument-taking test, an action) is parsed by the real parser and by an independent recursive-descent recogniser; acceptance and the tree must agree on every one. Exhaustive within the bound, so every dangling operator / unbalanced parenthesis / leftover-word junction of that size is covered.",
   note="Trusted: the reference grammar in harness/speclib/src/grammar.rs (self-validated each run by a counting recurrence and a print/parse round trip); words joined by one space.",
   design="§4 C01"),
}
PENDING = {f"C{n:02d}": "check not built yet (work in progress; see DESIGN.md §7 order of work)" for n in range(1, 21)}

def main():
    checks = []
    for pid, c in sorted(CHECKS.items()):
        checks.append({
            "property_id": pid,
            "quick_cmd": f"./check {pid} --tier quick",
            "thorough_cmd": f"./check {pid} --tier thorough",
            "evidence_file": f"/verif/evidence/{pid}.json",
            "replay_cmd_template": f"./check {pid} --replay {{path}}",
            "engine": "fpverif",
            "level_claimed": {"category": c["level"], "text": c["text"], "design_ref": c["design"]},
            "level_note": c["note"],
            "technique": c["technique"],
        })
    na = [{"property_id": p, "reason": r} for p, r in sorted(PENDING.items()) if p not in CHECKS]
    m = {
        "version": 1,
        "setup_cmd": "./setup.sh",
        "hooks": {
            "guard": "lipe_find_parser_verif",
            "enable": "none needed: every property is observed at the public API; the name is reserved (RUSTFLAGS=--cfg lipe_find_parser_verif) and no source commit uses it",
            "baseline_off_cmd": "cd /repo && cargo test --workspace --no-fail-fast --offline",
            "source_commits": [],
            "add_only": True,
        },
        "engines": [
            {"name": "fpverif", "path": "/verif/harness", "serves_properties": sorted(CHECKS.keys()),
             "kind_free_text": "Rust harness (speclib: reference models, Guile reader/evaluator/LiPE runtime model, explorer; fpverif: property modules driving the real parse/compile/scheme). Bounded exhaustive explicit-state exploration; stateright + shuttle for C16."},
        ],
        "checks": checks,
        "not_applicable": na,
        "notes": "Entry point ./check <ID> --tier quick|thorough [--replay FILE]; exit 0 held / 1 VIOLATION / 2 MACHINERY-ERROR. Known findings: /verif/known_findings.json (read-only at run time).",
    }
    json.dump(m, open("/verif/MANIFEST.json", "w"), indent=1)
    print("MANIFEST.json written:", len(checks), "checks,", len(na), "not claimed")

main()
