#!/bin/bash
# setup_cmd: offline build of the harness (release and debug profiles) from files on disk only.
set -e
ROOT="$(cd "$(dirname "$0")" && pwd)"
export CARGO_NET_OFFLINE=true
export CARGO_TARGET_DIR="$ROOT/target"
mkdir -p "$ROOT/target" "$ROOT/evidence" "$ROOT/replays"
cd "$ROOT/harness"
cargo build --offline -q --release -p fpverif
cargo build --offline -q -p fpverif
echo "setup ok"
