//! Observation of an emitted policy in the runtime model, in the same event form as the
//! reference evaluator produces.
use crate::prog;
use crate::subject::IoMap;
use speclib::eval::Event;
use speclib::record::Record;
use speclib::scm::reader::{Datum, Node};

#[derive(Clone, Debug, PartialEq)]
pub struct RecObs {
    pub truth: Option<bool>,
    pub stopped: bool,
    /// output events of this record, in order (not coalesced)
    pub events: Vec<Event>,
    /// framed mode only: texts written to the shared port outside of any frame
    pub unframed: Vec<String>,
    /// framed mode only: frames as (payload, tag)
    pub frames: Vec<(String, u32)>,
}

#[derive(Clone, Debug)]
pub struct Observed {
    pub records: Vec<RecObs>,
    pub device: String,
    pub threads: String,
    /// writes outside any record (initialisation / termination code)
    pub stray: Vec<(usize, String)>,
    pub opened: Vec<(usize, String, String)>,
    pub closed: Vec<usize>,
}

pub const SEP: char = '\u{1e}';

/// Run `text` on `records`; `io` is the destination table (`Some` = framed mode).
pub fn observe(text: &str, io: &Option<IoMap>, records: &[Record]) -> Result<Observed, String> {
    let forms = speclib::scm::reader::read_all(text).map_err(|e| e.to_string())?;
    observe_forms(&forms, io, records)
}

pub fn observe_forms(forms: &[Node], io: &Option<IoMap>, records: &[Record]) -> Result<Observed, String> {
    let run = prog::run_forms(forms, records)?;
    if run.scans != 1 {
        return Err(format!("the program called lipe-scan {} times", run.scans));
    }
    if run.outcomes.len() != records.len() {
        return Err(format!("the scan visited {} of {} records", run.outcomes.len(), records.len()));
    }
    let mut out: Vec<RecObs> = run
        .outcomes
        .iter()
        .map(|o| RecObs { truth: o.truth, stopped: o.stopped, events: vec![], unframed: vec![], frames: vec![] })
        .collect();
    let file_of = |port: usize| -> Result<Option<String>, String> {
        if port == 0 {
            return Ok(None);
        }
        run.files.iter().find(|f| f.0 == port).map(|f| Some(f.1.clone())).ok_or_else(|| format!("write to unknown port {port}"))
    };
    let mut stray = vec![];
    match io {
        None => {
            for (rec, port, text, _) in &run.writes {
                if *rec == usize::MAX {
                    stray.push((*port, text.clone()));
                    continue;
                }
                out[*rec].events.push(Event { dest: file_of(*port)?, text: text.clone() });
            }
        }
        Some(map) => {
            // guarded writes to the shared port come in (payload, SEP+tag) pairs
            let mut pending: Vec<Option<String>> = vec![None; records.len()];
            for (rec, port, text, guarded) in &run.writes {
                if *rec == usize::MAX {
                    stray.push((*port, text.clone()));
                    continue;
                }
                if *port != 0 {
                    // a direct write to a file port in framed mode: report as an event to that file
                    out[*rec].events.push(Event { dest: file_of(*port)?, text: text.clone() });
                    continue;
                }
                if !*guarded {
                    out[*rec].unframed.push(text.clone());
                    out[*rec].events.push(Event { dest: None, text: text.clone() });
                    continue;
                }
                let mut cs = text.chars();
                match (&pending[*rec], cs.next()) {
                    (Some(_), Some(SEP)) => {
                        let tag = cs.next().ok_or("frame separator without a tag")?;
                        if cs.next().is_some() {
                            return Err("text after the frame tag inside one write".into());
                        }
                        let payload = pending[*rec].take().unwrap();
                        let tag = tag as u32;
                        let (dest, term) = map.get(&tag).ok_or_else(|| format!("frame tag {tag} is not a key of the destination table"))?;
                        let mut t = payload.clone();
                        if let Some(c) = term {
                            t.push(*c);
                        }
                        out[*rec].events.push(Event { dest: dest.clone(), text: t });
                        out[*rec].frames.push((payload, tag));
                    }
                    (None, _) => pending[*rec] = Some(text.clone()),
                    (Some(p), _) => {
                        return Err(format!("two payload writes in a row on the shared port ({p:?} then {text:?}): bytes outside a frame"));
                    }
                }
            }
            if let Some(p) = pending.iter().flatten().next() {
                return Err(format!("payload {p:?} was never closed by a separator and tag"));
            }
        }
    }
    Ok(Observed { records: out, device: run.device, threads: run.threads, stray, opened: run.files, closed: run.closed })
}

/// The distinct integer literals N occurring as `(- N (atime|ctime|mtime))` in the program: the
/// compile-time clock readings embedded by time tests.
pub fn embedded_clocks(forms: &[Node]) -> Vec<u64> {
    let mut out = vec![];
    for f in forms {
        f.walk(&mut |n| {
            if let Datum::List(items) = &n.d {
                if items.len() == 3 && items[0].as_sym() == Some("-") {
                    if let (Some(num), Some(h)) = (items[1].as_num(), items[2].head()) {
                        if matches!(h, "atime" | "ctime" | "mtime") {
                            if let Ok(v) = num.parse::<u64>() {
                                out.push(v);
                            }
                        }
                    }
                }
            }
        });
    }
    out
}

/// Pieces of text the code generator itself writes (every symbol and every small form of a few
/// sample programs, and their unterminated prefixes): user strings that coincide with them must
/// still be plain data.
pub fn harvest_fragments() -> Vec<String> {
    use crate::subject::{compile_render, options, parse_real, C, P};
    let mut out = std::collections::BTreeSet::new();
    for src in [
        "-name a -print",
        "-name a -o -iname b -print0 -quit",
        "-pool p -xattr x -fprint f -fprintf g '%p %s\\n' -print-file-fid",
        "-mmin -5 -size +1k -perm -600 -type f,d -uid 0",
        "-xattr-match k v -printf '%u'",
    ] {
        if let P::Ok(o, e) = parse_real(src) {
            for (depth, threads) in [(false, None), (true, Some(2))] {
                let _ = o;
                if let C::Ok((text, _)) = compile_render(&e, &options(depth, threads), "/dev/mdt0") {
                    if let Ok(forms) = speclib::scm::reader::read_all(&text) {
                        for f in &forms {
                            f.walk(&mut |n| {
                                if let Some(s) = n.as_sym() {
                                    out.insert(s.to_string());
                                } else if let Some(items) = n.as_list() {
                                    let shown = n.show();
                                    if items.len() <= 3 && shown.len() <= 48 {
                                        out.insert(shown.clone());
                                        // an unterminated prefix, as a text search would look for
                                        if let Some(h) = items.first().and_then(|h| h.as_sym()) {
                                            out.insert(format!("({h} "));
                                            out.insert(format!("({h}"));
                                        }
                                    }
                                }
                            });
                        }
                    }
                }
            }
        }
    }
    out.into_iter().filter(|s| !s.is_empty()).collect()
}
