//! Comparison of the real parser with the text-level reference (`speclib::textspec`).
use crate::subject::{self, parse_spec, PS};
use speclib::ast::Expr;
use speclib::textspec::{self, is_blank, Reject, Spec};

#[derive(Debug, Clone)]
pub enum Verdict {
    AgreeAccept(Expr),
    AgreeReject(Reject, String),
    Skip(&'static str),
    Panic(String),
    /// reference rejects, real accepted
    AcceptsRejected { reject: Reject, tree: Expr, opts: subject::Opts },
    /// reference accepts, real returned an error
    RejectsAccepted { err: String, want: Expr },
    WrongTree { got: Expr, want: Expr },
    WrongOptions { got: subject::Opts, want: textspec::Opts },
}

pub fn opts_match(got: &subject::Opts, want: &textspec::Opts) -> bool {
    if got.depth != want.depth || got.threads != want.threads {
        return false;
    }
    // -maxdepth/-mindepth, when accepted, must be visible in the returned options
    for v in [want.max_depth, want.min_depth].into_iter().flatten() {
        if !got.dbg.contains(&v.to_string()) {
            return false;
        }
    }
    true
}

pub fn compare(input: &str) -> Verdict {
    let spec = textspec::parse(input);
    if let Spec::Unspecified(r) = spec {
        return Verdict::Skip(r);
    }
    match (spec, parse_spec(input)) {
        (_, PS::Panic(p)) => Verdict::Panic(p),
        (Spec::Accept { opts, tree, may_reject }, PS::Ok(o, t)) => {
            let _ = may_reject;
            if t != tree {
                Verdict::WrongTree { got: t, want: tree }
            } else if !opts_match(&o, &opts) {
                Verdict::WrongOptions { got: o, want: opts }
            } else {
                Verdict::AgreeAccept(t)
            }
        }
        (Spec::Accept { tree, may_reject, .. }, PS::Err(e)) => {
            if may_reject {
                Verdict::AgreeReject(Reject::Grammar, e)
            } else {
                Verdict::RejectsAccepted { err: e, want: tree }
            }
        }
        (Spec::Reject(r), PS::Err(e)) => Verdict::AgreeReject(r, e),
        (Spec::Reject(r), PS::Ok(o, t)) => Verdict::AcceptsRejected { reject: r, tree: t, opts: o },
        (Spec::Unspecified(_), _) => unreachable!(),
    }
}

/// Is the input lexically complete for the reference (every keyword has all its arguments and
/// every word is known)?
fn tokens_complete(prefix: &str) -> bool {
    matches!(textspec::parse(prefix), Spec::Accept { .. } | Spec::Reject(Reject::Grammar))
}

/// The as-built lexer accepts two tokens written without a blank between them.  True when
/// inserting blanks at (at most `depth`) token boundaries inside words turns the input into
/// one the reference accepts with exactly the tree and options the real parser returned.
pub fn glue_explains(input: &str, tree: &Expr, opts: &subject::Opts, depth: usize) -> bool {
    if let Spec::Accept { opts: o, tree: t, .. } = textspec::parse(input) {
        return &t == tree && opts_match(opts, &o);
    }
    if depth == 0 {
        return false;
    }
    let idx: Vec<usize> = input.char_indices().map(|(i, _)| i).collect();
    for w in 1..idx.len() {
        let p = idx[w];
        let before = input[..p].chars().last().unwrap();
        let after = input[p..].chars().next().unwrap();
        if is_blank(before) || is_blank(after) {
            continue;
        }
        if !tokens_complete(&input[..p]) {
            continue;
        }
        // as built, the operator words need a blank (or the end) after them: a word glued to
        // -o / -or / -a / -and is not part of the known finding
        let last_word = input[..p].split(|c: char| is_blank(c) || c == '(' || c == ')').last().unwrap_or("");
        if matches!(last_word, "-o" | "-or" | "-a" | "-and") {
            continue;
        }
        let repaired = format!("{} {}", &input[..p], &input[p..]);
        if glue_explains(&repaired, tree, opts, depth - 1) {
            return true;
        }
    }
    false
}
