//! Guarded calls into the subject's public API.
use crate::conv;
use lipe_find_parser::ast::Expression;
use lipe_find_parser::{compile, parse, RunOptions, Target};
use speclib::ast as s;
use speclib::report::guard;
use std::collections::BTreeMap;

#[derive(Clone, Debug, PartialEq, Eq, Hash)]
pub struct Opts {
    pub depth: bool,
    pub threads: Option<u64>,
    /// `{:?}` of the whole options value (covers fields this harness does not know about)
    pub dbg: String,
}

pub fn opts_of(o: &RunOptions) -> Opts {
    Opts { depth: o.depth, threads: o.threads.map(|t| t as u64), dbg: format!("{o:?}") }
}

pub enum P {
    Ok(RunOptions, Expression),
    /// error value, rendered with Display
    Err(String),
    /// panic site + message
    Panic(String),
}

pub fn parse_real(input: &str) -> P {
    match guard(|| match parse(input) {
        Ok((o, e)) => Ok((o, e)),
        Err(e) => Err(e.to_string()),
    }) {
        Ok(Ok((o, e))) => P::Ok(o, e),
        Ok(Err(t)) => P::Err(t),
        Err(p) => P::Panic(p),
    }
}

#[derive(Clone, Debug, PartialEq)]
pub enum PS {
    Ok(Opts, s::Expr),
    Err(String),
    Panic(String),
}

fn parse_once(input: &str) -> PS {
    match parse_real(input) {
        P::Ok(o, e) => PS::Ok(opts_of(&o), conv::expr(&e)),
        P::Err(t) => PS::Err(t),
        P::Panic(p) => PS::Panic(p),
    }
}

/// Parse; inputs of 24 bytes or more are parsed a second time on the same thread and the two
/// answers must be equal (a result that depends on an earlier call is reported like a panic,
/// with the pseudo-site `parse-history`).
pub fn parse_spec(input: &str) -> PS {
    let first = parse_once(input);
    if input.len() >= 24 {
        let second = parse_once(input);
        if first != second {
            return PS::Panic(format!("src/parse-history:0: a second parse of the same text on the same thread returned a different answer: {:?} then {:?}", brief(&first), brief(&second)));
        }
    }
    first
}

fn brief(p: &PS) -> String {
    match p {
        PS::Ok(o, t) => format!("Ok({}, {})", o.dbg, t.show()),
        PS::Err(e) => format!("Err({e})"),
        PS::Panic(p) => format!("Panic({p})"),
    }
}

/// Results of parsing each input alone on a fresh thread, and of parsing input j right after
/// input i on a fresh thread: `(i, j, answer after i, answer alone)` for every pair that differs.
pub fn parse_history_pairs(inputs: &[String]) -> Vec<(usize, usize, String, String)> {
    let alone: Vec<String> = inputs
        .iter()
        .map(|s| {
            let s = s.clone();
            std::thread::Builder::new().stack_size(256 << 20).spawn(move || brief(&parse_once(&s))).unwrap().join().unwrap_or_else(|_| "thread died".into())
        })
        .collect();
    let mut out = vec![];
    for i in 0..inputs.len() {
        let a = inputs[i].clone();
        let all: Vec<String> = inputs.to_vec();
        let res: Vec<String> = std::thread::Builder::new()
            .stack_size(256 << 20)
            .spawn(move || {
                // prime with input i, then every j in turn, re-priming before each
                all.iter()
                    .map(|b| {
                        let _ = parse_once(&a);
                        brief(&parse_once(b))
                    })
                    .collect()
            })
            .unwrap()
            .join()
            .unwrap_or_default();
        for (j, r) in res.iter().enumerate() {
            if r != &alone[j] {
                out.push((i, j, r.clone(), alone[j].clone()));
            }
        }
    }
    out
}

pub type IoMap = BTreeMap<u32, (Option<String>, Option<char>)>;

/// A compiled expression held behind closures (the subject does not export the type by name).
pub struct Handle {
    scheme: Box<dyn Fn(&str) -> String>,
    io: Box<dyn Fn() -> Option<IoMap>>,
}

impl Handle {
    pub fn scheme(&self, mdt: &str) -> Result<String, String> {
        guard(|| (self.scheme)(mdt))
    }
    pub fn io_map(&self) -> Result<Option<IoMap>, String> {
        guard(|| (self.io)())
    }
}

pub fn compile_handle(e: &Expression, o: &RunOptions) -> C<Handle> {
    match guard(|| match compile(e, o) {
        Ok(c) => {
            let c = std::rc::Rc::new(c);
            let c2 = c.clone();
            Ok(Handle {
                scheme: Box::new(move |m: &str| c.scheme(m)),
                io: Box::new(move || io_map_of(c2.io_map())),
            })
        }
        Err(e) => Err(e.to_string()),
    }) {
        Ok(Ok(v)) => C::Ok(v),
        Ok(Err(t)) => C::Err(t),
        Err(p) => C::Panic(p),
    }
}

pub enum C<T> {
    Ok(T),
    Err(String),
    Panic(String),
}

pub fn options(depth: bool, threads: Option<u32>) -> RunOptions {
    let mut o = RunOptions::default();
    o.depth = depth;
    o.threads = threads;
    o
}

pub fn io_map_of(m: Option<std::collections::HashMap<u32, Target>>) -> Option<IoMap> {
    m.map(|m| {
        m.into_iter()
            .map(|(k, t)| {
                (
                    k,
                    match t {
                        Target::Stdout(c) => (None, c),
                        Target::File(f, c) => (Some(f), c),
                    },
                )
            })
            .collect()
    })
}

/// Compile and render for `mdt`; returns (program text, destination table).
pub fn compile_render(e: &Expression, o: &RunOptions, mdt: &str) -> C<(String, Option<IoMap>)> {
    match guard(|| match compile(e, o) {
        Ok(c) => Ok((c.scheme(mdt), io_map_of(c.io_map()))),
        Err(e) => Err(e.to_string()),
    }) {
        Ok(Ok(v)) => C::Ok(v),
        Ok(Err(t)) => C::Err(t),
        Err(p) => C::Panic(p),
    }
}

/// Compile a spec-side tree built through the public constructors.
pub fn compile_spec(e: &s::Expr, depth: bool, threads: Option<u32>, mdt: &str) -> Option<C<(String, Option<IoMap>)>> {
    let real = conv::expr_to_real(e)?;
    Some(compile_render(&real, &options(depth, threads), mdt))
}

// ---- one compiled expression rendered by several threads at once ---------------------------
// The compiled type is not nameable from outside and need not be `Sync`; autoref-based dispatch
// picks the threaded run when it is and reports "not shareable" otherwise, so that this harness
// builds against either.
pub struct SharedRender<'a, T, F>(&'a T, F);

fn shared_render<'a, T, F: Fn(&T, &str) -> String>(t: &'a T, f: F) -> SharedRender<'a, T, F> {
    SharedRender(t, f)
}

pub trait RenderFromThreads {
    fn stress(&self, paths: &[String], expected: &[String], rounds: usize) -> Option<Vec<(usize, usize, String)>>;
}

impl<'a, T: Sync, F: Fn(&T, &str) -> String + Sync> RenderFromThreads for SharedRender<'a, T, F> {
    fn stress(&self, paths: &[String], expected: &[String], rounds: usize) -> Option<Vec<(usize, usize, String)>> {
        let barrier = std::sync::Barrier::new(paths.len());
        let found = std::sync::Mutex::new(vec![]);
        std::thread::scope(|s| {
            for (k, p) in paths.iter().enumerate() {
                let (barrier, found, this) = (&barrier, &found, &self);
                s.spawn(move || {
                    barrier.wait();
                    for r in 0..rounds {
                        let got = match std::panic::catch_unwind(std::panic::AssertUnwindSafe(|| (this.1)(this.0, p))) {
                            Ok(g) => g,
                            Err(_) => "<panic while rendering>".to_string(),
                        };
                        if got != expected[k] {
                            found.lock().unwrap().push((k, r, got));
                            break;
                        }
                    }
                });
            }
        });
        Some(found.into_inner().unwrap())
    }
}

pub trait RenderNotShareable {
    fn stress(&self, _: &[String], _: &[String], _: usize) -> Option<Vec<(usize, usize, String)>> {
        None
    }
}

impl<'a, T, F> RenderNotShareable for &SharedRender<'a, T, F> {}

/// Compile once, render sequentially for each path (the expected texts), then let one thread per
/// path render the shared value `rounds` times.  Ok(None): the compiled type is not `Sync`.
/// Ok(Some(v)): v lists (thread, round, text) of the first wrong rendering of each thread.
pub fn concurrent_render(e: &Expression, o: &RunOptions, paths: &[String], rounds: usize) -> Result<Option<Vec<(usize, usize, String)>>, String> {
    let c = match guard(|| compile(e, o)) {
        Ok(Ok(c)) => c,
        Ok(Err(e)) => return Err(e.to_string()),
        Err(p) => return Err(format!("panic: {p}")),
    };
    let expected: Vec<String> = paths.iter().map(|p| c.scheme(p)).collect();
    let w = shared_render(&c, |c, p| c.scheme(p));
    Ok((&w).stress(paths, &expected, rounds))
}

// ---- several threads calling parse / compile at once ----------------------------------------
/// What one call sequence `parse(text)`, `compile`, `scheme("/dev/mdt0")`, `io_map()` answers, as
/// one string with the embedded clock second replaced.
pub fn whole_answer(text: &str) -> String {
    match parse_real(text) {
        P::Err(e) => format!("parse error: {e}"),
        P::Panic(p) => format!("parse panic: {}", speclib::report::panic_site(&p)),
        P::Ok(o, e) => {
            let head = format!("{:?} {}", opts_of(&o), conv::expr(&e).show());
            match compile_render(&e, &o, "/dev/mdt0") {
                C::Ok((t, io)) => format!("{head}\n{}\n{io:?}", crate::props::children::normalise_clock(&t)),
                C::Err(e) => format!("{head}\ncompile error: {e}"),
                C::Panic(p) => format!("{head}\ncompile panic: {}", speclib::report::panic_site(&p)),
            }
        }
    }
}

/// One thread per text, all started together, each repeating its own call `rounds` times and
/// comparing with the answer obtained beforehand on a thread of its own.  Returns, per thread that
/// saw a different answer, (thread, round, expected, got).  The schedules are whatever the machine
/// produces (a stress run, not an exhaustive exploration).
pub fn concurrent_calls(texts: &[String], rounds: usize) -> Vec<(usize, usize, String, String)> {
    let expected: Vec<String> = texts
        .iter()
        .map(|t| {
            let t = t.clone();
            std::thread::Builder::new().stack_size(64 << 20).spawn(move || whole_answer(&t)).unwrap().join().unwrap_or_else(|_| "thread died".into())
        })
        .collect();
    let barrier = std::sync::Barrier::new(texts.len());
    let found = std::sync::Mutex::new(vec![]);
    std::thread::scope(|s| {
        for (k, t) in texts.iter().enumerate() {
            let (barrier, found, expected) = (&barrier, &found, &expected);
            std::thread::Builder::new()
                .stack_size(64 << 20)
                .spawn_scoped(s, move || {
                    barrier.wait();
                    for r in 0..rounds {
                        let got = whole_answer(t);
                        if got != expected[k] {
                            found.lock().unwrap().push((k, r, expected[k].clone(), got));
                            break;
                        }
                    }
                })
                .unwrap();
        }
    });
    found.into_inner().unwrap()
}
