//! Child-process sweeps: the same canonical record per input, computed by the debug and by the
//! release build of this harness (C03, C17, C07).
use crate::subject::{compile_handle, parse_real, C, P};
use crate::conv;
use speclib::report::{hash_of, panic_site, root};
use std::io::{BufRead, BufReader, Write};
use std::process::{Command, Stdio};
use std::sync::mpsc;
use std::time::{Duration, Instant};

/// Replace integers within a day of the current clock by NOW (the embedded compile-time second).
pub fn normalise_clock(text: &str) -> String {
    let now = std::time::SystemTime::now().duration_since(std::time::UNIX_EPOCH).unwrap().as_secs();
    let mut out = String::with_capacity(text.len());
    let b = text.as_bytes();
    let mut i = 0;
    while i < b.len() {
        if b[i].is_ascii_digit() && (i == 0 || !b[i - 1].is_ascii_alphanumeric()) {
            let s = i;
            while i < b.len() && b[i].is_ascii_digit() {
                i += 1;
            }
            let tok = &text[s..i];
            match tok.parse::<u64>() {
                Ok(v) if v.saturating_add(86400) > now && v < now + 86400 && tok.len() >= 9 => out.push_str("NOW"),
                _ => out.push_str(tok),
            }
        } else {
            let c = text[i..].chars().next().unwrap();
            out.push(c);
            i += c.len_utf8();
        }
    }
    out
}

/// Trees that no command line spells (empty element lists, explicit grouping / option nodes,
/// octal escapes above \377, empty strings), built through the public constructors; corpus
/// entries of the form "\u{1}T:<k>" stand for them.
pub fn built_trees() -> Vec<speclib::ast::Expr> {
    use speclib::ast::*;
    let nl = Fmt::Special(Special::Newline);
    let name = || Expr::Test(Test::Name("x".into()));
    vec![
        Expr::Action(Action::Printf(vec![])),
        Expr::Action(Action::FPrintf("f".into(), vec![])),
        Expr::and(name(), Expr::Action(Action::Printf(vec![]))),
        Expr::prec(Expr::Action(Action::Print)),
        Expr::not(Expr::prec(Expr::not(Expr::Action(Action::Print0)))),
        Expr::Global(Global::Depth),
        Expr::and(name(), Expr::Global(Global::Threads(3))),
        Expr::Positional,
        Expr::Action(Action::Printf(vec![Fmt::Field(Field::Name), Fmt::Special(Special::Ascii(511))])),
        Expr::Action(Action::Printf(vec![Fmt::Special(Special::Ascii(256)), nl.clone()])),
        Expr::list(Expr::Action(Action::Print), Expr::Action(Action::Printf(vec![]))),
        Expr::or(Expr::Action(Action::Printf(vec![])), Expr::Action(Action::Print0)),
        Expr::Test(Test::Type(vec![])),
        Expr::Test(Test::Type(vec![FType::File; 9])),
        Expr::Test(Test::Perm(PermKind::Any, 0o7777)),
        Expr::Test(Test::Name(String::new())),
        Expr::Action(Action::FPrint(String::new())),
        Expr::Test(Test::XattrMatch(String::new(), String::new())),
        Expr::Action(Action::Printf(vec![Fmt::Lit(String::new())])),
        Expr::Action(Action::Printf(vec![Fmt::Lit(String::new()), nl])),
        Expr::prec(Expr::prec(Expr::prec(name()))),
    ]
}

/// The canonical record of one input: (class, full text).
pub fn canon(input: &str) -> (String, String) {
    let parsed = match input.strip_prefix("\u{1}T:").and_then(|k| k.parse::<usize>().ok()) {
        Some(k) => match built_trees().get(k).and_then(conv::expr_to_real) {
            Some(e) => P::Ok(crate::subject::options(false, None), e),
            None => P::Err("no such built tree".into()),
        },
        None => parse_real(input),
    };
    match parsed {
        P::Panic(p) => (format!("parse-panic:{}", panic_site(&p)), format!("P-PANIC {}", panic_site(&p))),
        P::Err(e) => ("parse-err".into(), format!("P-ERR {e}")),
        P::Ok(o, e) => {
            let tree = conv::expr(&e);
            let head = format!("P-OK {:?} {}", o, tree.show());
            match compile_handle(&e, &o) {
                C::Panic(p) => (format!("compile-panic:{}", panic_site(&p)), format!("{head}\nC-PANIC {}", panic_site(&p))),
                C::Err(t) => ("compile-err".into(), format!("{head}\nC-ERR {t}")),
                C::Ok(h) => {
                    if input == "-true" || input == "-mmin 1 -fprint f" {
                        // a device path with very many characters to escape (once, not per input)
                        for k in [1000usize, 10_000, 100_000] {
                            if let Err(p) = h.scheme(&"\"\\".repeat(k)) {
                                return (format!("compile-panic:{}", panic_site(&p)), format!("{head}\nRENDER-PANIC {}", panic_site(&p)));
                            }
                        }
                    }
                    let a = h.scheme("/");
                    let b = h.scheme("a\"b\\\n)");
                    let io = h.io_map();
                    match (a, b, io) {
                        (Ok(a), Ok(b), Ok(io)) => ("ok".into(), format!("{head}\nC-OK {}\n{}\n{:?}", normalise_clock(&a), normalise_clock(&b), io)),
                        (a, b, io) => {
                            let p = a.err().or(b.err()).or(io.err()).unwrap_or_default();
                            (format!("render-panic:{}", panic_site(&p)), format!("{head}\nR-PANIC {}", panic_site(&p)))
                        }
                    }
                }
            }
        }
    }
}

/// child side: `fpverif child records <file> <shard> <nshards> <from>`
pub fn child_records(args: &[String]) -> i32 {
    let file = &args[0];
    let shard: usize = args[1].parse().unwrap_or(0);
    let n: usize = args[2].parse().unwrap_or(1);
    let from: usize = args[3].parse().unwrap_or(0);
    let inputs: Vec<String> = match std::fs::read_to_string(file).ok().and_then(|t| serde_json::from_str(&t).ok()) {
        Some(v) => v,
        None => {
            println!("X cannot read {file}");
            return 2;
        }
    };
    // marker for system-call tracing: everything after this call is made on behalf of an input
    let _ = std::fs::metadata("/FPVERIF-PROBE-START");
    let out = std::io::stdout();
    let mut out = out.lock();
    let mut i = shard;
    while i < inputs.len() {
        if i >= from {
            let _ = writeln!(out, "S {i}");
            let _ = out.flush();
            let t = Instant::now();
            let (class, full) = canon(&inputs[i]);
            let ms = t.elapsed().as_millis();
            let _ = writeln!(out, "R {i} {:016x} {ms} {class}", hash_of(&full));
        }
        i += n;
    }
    let _ = writeln!(out, "E");
    let _ = out.flush();
    0
}

/// child side: `fpverif child programs <file>` — one JSON line per input: the program text for
/// the device "/dev/mdt0" (null when the input is refused).
pub fn child_programs(file: &str) -> i32 {
    let inputs: Vec<String> = match std::fs::read_to_string(file).ok().and_then(|t| serde_json::from_str(&t).ok()) {
        Some(v) => v,
        None => return 2,
    };
    let out = std::io::stdout();
    let mut out = out.lock();
    for input in &inputs {
        let prog: Option<String> = match parse_real(input) {
            P::Ok(o, e) => match compile_handle(&e, &o) {
                C::Ok(h) => h.scheme("/dev/mdt0").ok(),
                _ => None,
            },
            _ => None,
        };
        let _ = writeln!(out, "{}", serde_json::to_string(&prog).unwrap());
    }
    0
}

#[derive(Clone, Debug, Default)]
pub struct Rec {
    pub hash: u64,
    pub ms: u64,
    /// ok / parse-err / compile-err / *-panic:<site> / died:<status> / hang
    pub class: String,
}

pub fn exe(profile: &str) -> std::path::PathBuf {
    root().join("target").join(profile).join("fpverif")
}

/// Run the whole corpus in `profile`; one record per input.
pub fn sweep(profile: &str, inputs: &[String], tag: &str) -> Result<Vec<Rec>, String> {
    let dir = root().join("target").join("sweeps");
    std::fs::create_dir_all(&dir).map_err(|e| e.to_string())?;
    let file = dir.join(format!("{tag}-{}.json", std::process::id()));
    std::fs::write(&file, serde_json::to_string(inputs).unwrap()).map_err(|e| e.to_string())?;
    let bin = exe(profile);
    if !bin.exists() {
        return Err(format!("{} does not exist (build the {profile} profile first)", bin.display()));
    }
    let nshards = std::thread::available_parallelism().map(|n| n.get()).unwrap_or(8).min(16);
    let mut recs: Vec<Rec> = vec![Rec::default(); inputs.len()];
    let results: Vec<Result<Vec<(usize, Rec)>, String>> = std::thread::scope(|s| {
        let hs: Vec<_> = (0..nshards)
            .map(|shard| {
                let bin = bin.clone();
                let file = file.clone();
                let total = inputs.len();
                s.spawn(move || shard_loop(&bin, &file, shard, nshards, total))
            })
            .collect();
        hs.into_iter().map(|h| h.join().unwrap_or_else(|_| Err("shard thread panicked".into()))).collect()
    });
    let _ = std::fs::remove_file(&file);
    for r in results {
        for (i, rec) in r? {
            recs[i] = rec;
        }
    }
    if let Some(i) = recs.iter().position(|r| r.class.is_empty()) {
        return Err(format!("no record for input {i} in profile {profile}"));
    }
    Ok(recs)
}

/// No line from a child for this long while it works on one input counts as a hang.
const HANG_S: u64 = 15;
/// After this many hangs (or answers slower than 5 s) a shard stops: the remaining inputs of the shard are recorded as
/// `not-run` (each hang costs HANG_S of wall time; the hangs found are reported).
const MAX_HANGS: usize = 2;

fn shard_loop(bin: &std::path::Path, file: &std::path::Path, shard: usize, n: usize, total: usize) -> Result<Vec<(usize, Rec)>, String> {
    let mut out = vec![];
    let mut from = 0usize;
    let mut restarts = 0;
    let mut hangs = 0;
    loop {
        let mut child = Command::new(bin)
            .args(["child", "records", file.to_str().unwrap(), &shard.to_string(), &n.to_string(), &from.to_string()])
            .stdout(Stdio::piped())
            .stderr(Stdio::null())
            .spawn()
            .map_err(|e| format!("cannot start {}: {e}", bin.display()))?;
        let stdout = child.stdout.take().unwrap();
        let (tx, rx) = mpsc::channel::<String>();
        let reader = std::thread::spawn(move || {
            for line in BufReader::new(stdout).lines().map_while(Result::ok) {
                if tx.send(line).is_err() {
                    break;
                }
            }
        });
        let mut started: Option<usize> = None;
        let mut done = false;
        let mut hung = false;
        loop {
            match rx.recv_timeout(Duration::from_secs(HANG_S)) {
                Ok(line) => {
                    let mut p = line.split(' ');
                    match p.next() {
                        Some("S") => started = p.next().and_then(|x| x.parse().ok()),
                        Some("R") => {
                            let i: usize = p.next().and_then(|x| x.parse().ok()).ok_or("bad record line")?;
                            let hash = u64::from_str_radix(p.next().unwrap_or("0"), 16).unwrap_or(0);
                            let ms: u64 = p.next().and_then(|x| x.parse().ok()).unwrap_or(0);
                            let class = p.collect::<Vec<_>>().join(" ");
                            out.push((i, Rec { hash, ms, class }));
                            started = None;
                            if ms > 5000 {
                                // very slow answers count towards the shard's limit like hangs
                                hangs += 1;
                                if hangs >= MAX_HANGS {
                                    let _ = child.kill();
                                    let _ = child.wait();
                                    let mut j = shard;
                                    while j < total {
                                        if j > i {
                                            out.push((j, Rec { hash: 0, ms: 0, class: "not-run".into() }));
                                        }
                                        j += n;
                                    }
                                    return Ok(out);
                                }
                            }
                        }
                        Some("E") => {
                            done = true;
                            break;
                        }
                        Some("X") => return Err(line),
                        _ => {}
                    }
                }
                Err(mpsc::RecvTimeoutError::Timeout) => {
                    hung = true;
                    let _ = child.kill();
                    break;
                }
                Err(mpsc::RecvTimeoutError::Disconnected) => break,
            }
        }
        let status = child.wait().map_err(|e| e.to_string())?;
        let _ = reader.join();
        if done {
            return Ok(out);
        }
        // the child died or hung while working on `started`
        let i = match started {
            Some(i) => i,
            None => return Err(format!("child for shard {shard} ended without finishing ({status})")),
        };
        out.push((i, Rec { hash: 0, ms: 0, class: if hung { "hang".into() } else { format!("died:{status}") } }));
        from = i + 1;
        restarts += 1;
        if hung {
            hangs += 1;
            if hangs >= MAX_HANGS {
                let mut j = shard;
                while j < total {
                    if j >= from {
                        out.push((j, Rec { hash: 0, ms: 0, class: "not-run".into() }));
                    }
                    j += n;
                }
                return Ok(out);
            }
        }
        if restarts > 200 || from >= total {
            if from >= total {
                return Ok(out);
            }
            return Err(format!("shard {shard}: more than 200 child crashes"));
        }
    }
}
