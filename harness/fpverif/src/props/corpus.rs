//! The input corpus shared by C03 (totality) and C17 (profile agreement): DESIGN.md §4 C03.
use speclib::report::Tier;
use speclib::textspec::{ArgKind, VOCAB};

const WORDS11: [&str; 11] = ["(", ")", "!", ",", "-a", "-and", "-o", "-or", "-true", "-name x", "-print"];
const ARG_ALPHA: [char; 22] = ['0', '1', '7', '8', '9', '+', '-', '/', ',', '=', 'u', 'g', 'a', 'r', 'w', 'x', 'b', 'k', 'M', 's', '%', '\\'];
const MUT_CHARS: [&str; 12] = ["'", "\"", "\\", "\t", "\n", "(", ")", "\u{1}", "é", "😀", "%", "-"];

pub fn seeds() -> Vec<String> {
    let mut v: Vec<String> = vec![];
    for kw in VOCAB {
        let args: Vec<&str> = kw
            .args
            .iter()
            .map(|k| match k {
                ArgKind::Str => "x",
                ArgKind::U32Cmp | ArgKind::U64Cmp => "+5",
                ArgKind::U32 => "3",
                ArgKind::SizeCmp => "-5k",
                ArgKind::TimeCmpMin | ArgKind::TimeCmpDay => "+2h",
                ArgKind::TypeList => "f,d",
                ArgKind::Perm => "-u+x,g-w",
                ArgKind::Format => "'%p %A@ \\101\\n'",
            })
            .collect();
        v.push(std::iter::once(kw.word).chain(args).collect::<Vec<_>>().join(" "));
    }
    v.push("nope".into());
    for s in [
        "-name '*.c' -o -name \"*.h\" -print",
        "( -type f -a -size +1M ) -o ( -type d , -empty )",
        "! -uid 0 -perm /4000 -fprintf out '%p %u %m\\n'",
        "-depth -threads 8 -mtime -7 -print0",
        "-true -a ( -false -o ! ( -name x , -print ) )",
        "-printf '%{fid} %{xattr:tag} %S %k\\t%%\\0'",
        "-xattr-match 'user.*' 'v?' -pool flash -print-file-fid",
        "-perm 0644 -links +1 -inum -99 -quit",
        "-fprint a -fprint0 b -fls c -ls -prune",
        "-amin 5 -cmin -5s -atime +5d -mmin 0",
        "-iname FOO -ipath '*/bar' -path ./x -regex '.*'",
        "-stripe-count +1 -mirror-count 2 -size 0",
        "-maxdepth 2 -mindepth 1 -true",
        "-nouser -o -nogroup -o -user root -o -group wheel",
        "-printf '\\a\\b\\c\\f\\n\\r\\t\\v\\\\\\q%%'",
        "-size 36028797018963967 -uid 4294967295 -links 18446744073709551615",
    ] {
        v.push(s.into());
    }
    v
}

fn lattice() -> Vec<String> {
    let mut v: Vec<u128> = vec![0, 1, 9, 10, (1 << 31) - 1, 1 << 31, (1 << 31) + 1, (1 << 32) - 1, 1 << 32, (1 << 32) + 1, (1u128 << 63) - 1, 1 << 63, (1u128 << 64) - 1, 1 << 64, (1u128 << 64) + 1, 10u128.pow(19), 10u128.pow(20)];
    for u in [2u128, 512, 1 << 10, 1 << 20, 1 << 30, 1 << 40, 60, 3600, 86400] {
        let q = (1u128 << 64) / u;
        v.extend([q - 1, q, q + 1, q + 2]);
    }
    // values tied to the current clock: the number of whole seconds / minutes / hours / days
    // since the epoch, and their neighbours (an age bound that reaches back to the epoch)
    let now = std::time::SystemTime::now().duration_since(std::time::UNIX_EPOCH).map(|d| d.as_secs()).unwrap_or(0) as u128;
    for u in [1u128, 60, 3600, 86400] {
        let q = now / u;
        v.extend([q.saturating_sub(1), q, q + 1, q + 2]);
    }
    v.sort();
    v.dedup();
    let mut out: Vec<String> = v.iter().map(|x| x.to_string()).collect();
    out.push("1".to_string() + &"0".repeat(39));
    out
}

/// Free-text arguments that look like numbers, and pairs of bounds on one attribute in both
/// orders (an interval computed from two arguments).
pub fn value_interaction_inputs() -> Vec<String> {
    let mut out = vec![];
    let lat = lattice();
    // letters that are no unit of the keyword (weeks, years, upper-case spellings, doubled units)
    for kw in VOCAB {
        let bad: &[&str] = match kw.args {
            [ArgKind::SizeCmp] => &["w2", "K", "B", "kk", "P", "E", "y"],
            [ArgKind::TimeCmpMin] | [ArgKind::TimeCmpDay] => &["w", "y", "D", "H", "M", "S", "ms", "dd"],
            [ArgKind::U32Cmp] | [ArgKind::U64Cmp] | [ArgKind::U32] => &["k", "d", "u", "L"],
            _ => continue,
        };
        for n in &lat {
            for u in bad {
                out.push(format!("{} {n}{u}", kw.word));
                out.push(format!("{} +{n}{u} -print", kw.word));
            }
        }
    }
    for kw in VOCAB.iter().filter(|k| k.args == [ArgKind::Str]) {
        for n in &lat {
            out.push(format!("{} {n}", kw.word));
            out.push(format!("{} '{n}'", kw.word));
        }
        for w in ["+5", "-5", "0x10", "1e3", "٣", "-0", "00"] {
            out.push(format!("{} {w}", kw.word));
        }
    }
    let vals = ["0", "1", "2", "7", "1000", "2000", "4294967295"];
    for kw in VOCAB {
        let unit = match kw.args {
            [ArgKind::U32Cmp] | [ArgKind::U64Cmp] => "",
            [ArgKind::SizeCmp] => "k",
            [ArgKind::TimeCmpMin] | [ArgKind::TimeCmpDay] => "",
            _ => continue,
        };
        for a in vals {
            for b in vals {
                for (sa, sb) in [("+", "-"), ("-", "+"), ("", "-"), ("+", ""), ("+", "+"), ("-", "-"), ("", "")] {
                    let (x, y) = (format!("{} {sa}{a}{unit}", kw.word), format!("{} {sb}{b}{unit}", kw.word));
                    out.push(format!("{x} {y}"));
                    if a != b {
                        out.push(format!("{x} -a {y} -print0"));
                        out.push(format!("( {x} , {y} )"));
                        out.push(format!("{x} -o {y}"));
                        out.push(format!("{x} -name q {y}"));
                        out.push(format!("! {x} ! {y}"));
                    }
                }
            }
        }
    }
    // equal products in different units, equal counts in different units
    for kw in ["-amin", "-mmin", "-cmin", "-atime", "-mtime", "-ctime"] {
        for (a, b) in [("120", "2h"), ("120m", "2h"), ("1440m", "1d"), ("24h", "1d"), ("3600s", "1h"), ("60s", "1m"), ("0", "0d"), ("0s", "0h"), ("5m", "5d"), ("7", "7")] {
            for s in ["", "+", "-"] {
                out.push(format!("{kw} {s}{a} -o {kw} {s}{b}"));
                out.push(format!("{kw} {s}{b} {kw} {s}{a}"));
            }
        }
    }
    out
}

pub fn numeric_inputs() -> Vec<String> {
    let mut out = vec![];
    let lat = lattice();
    for kw in VOCAB {
        for k in kw.args {
            let units: &[&str] = match k {
                ArgKind::U32Cmp | ArgKind::U64Cmp | ArgKind::U32 => &[""],
                ArgKind::SizeCmp => &["", "b", "c", "w", "k", "M", "G", "T"],
                ArgKind::TimeCmpMin | ArgKind::TimeCmpDay => &["", "s", "m", "h", "d"],
                _ => continue,
            };
            let signs: &[&str] = if *k == ArgKind::U32 { &[""] } else { &["", "+", "-"] };
            for n in &lat {
                for u in units {
                    for s in signs {
                        for z in ["", "0", "000"] {
                            out.push(format!("{} {s}{z}{n}{u}", kw.word));
                        }
                    }
                }
            }
        }
    }
    out
}

pub fn corpus(tier: Tier) -> Vec<String> {
    let mut out: Vec<String> = vec![];
    // 1. operator-word sequences
    let n1 = tier.pick(5, 6);
    for len in 1..=n1 {
        let total = 11usize.pow(len as u32);
        for mut idx in 0..total {
            let mut w = Vec::with_capacity(len);
            for _ in 0..len {
                w.push(WORDS11[idx % 11]);
                idx /= 11;
            }
            out.push(w.join(" "));
        }
    }
    // 2. every short argument string after each argument-taking keyword
    let n2 = tier.pick(2, 3);
    for kw in VOCAB.iter().filter(|k| !k.args.is_empty()) {
        for len in 1..=n2 {
            let total = ARG_ALPHA.len().pow(len as u32);
            for mut idx in 0..total {
                let mut s = String::new();
                for _ in 0..len {
                    s.push(ARG_ALPHA[idx % ARG_ALPHA.len()]);
                    idx /= ARG_ALPHA.len();
                }
                let lead = if kw.args.len() == 2 { "f " } else { "" };
                out.push(format!("{} {lead}{s}", kw.word));
                if kw.args.contains(&ArgKind::Format) || kw.args.contains(&ArgKind::Perm) {
                    out.push(format!("{} {lead}'{s}'", kw.word));
                }
            }
        }
    }
    // 2b. every string up to length 4 over a format-focused alphabet after -printf
    let fa = ['\\', '%', '0', '1', '7', '8', '9', 'p', 'A', '{'];
    for len in 1..=4usize {
        for mut idx in 0..fa.len().pow(len as u32) {
            let mut s = String::new();
            for _ in 0..len {
                s.push(fa[idx % fa.len()]);
                idx /= fa.len();
            }
            out.push(format!("-printf '{s}'"));
        }
    }
    // 3. prefixes and single-character mutations of seeds
    for s in seeds() {
        let idx: Vec<usize> = s.char_indices().map(|(i, _)| i).chain(std::iter::once(s.len())).collect();
        for w in 0..idx.len() {
            let p = idx[w];
            out.push(s[..p].to_string());
            for m in MUT_CHARS {
                out.push(format!("{}{m}{}", &s[..p], &s[p..]));
                if w + 1 < idx.len() {
                    out.push(format!("{}{m}{}", &s[..p], &s[idx[w + 1]..]));
                }
            }
            if w + 1 < idx.len() {
                out.push(format!("{}{}", &s[..p], &s[idx[w + 1]..]));
            }
        }
    }
    // 4. numeric boundary lattice
    out.extend(numeric_inputs());
    out.extend(value_interaction_inputs());
    // 5. growth families
    for k in (1..=64).chain([128, 256, 1024]) {
        if k <= 64 {
            // nesting depth is bounded by 64 in the property's statement
            out.push(format!("{} -true {}", "( ".repeat(k), ") ".repeat(k)));
            out.push(format!("{}-true", "! ".repeat(k)));
            out.push(format!("{}-true", "(".repeat(k)));
            out.push(format!("{}! -true{}", "( ! ".repeat(k / 2), " )".repeat(k / 2)));
        }
        out.push(format!("-true {}", ")".repeat(k)));
        if k <= 256 {
            out.push(vec!["-true"; k].join(" -o "));
            out.push(vec!["-true"; k].join(" , "));
            out.push(vec!["-name x"; k].join(" "));
        }
        out.push(format!("-uid {}", "9".repeat(k)));
        out.push(format!("-perm {}", "7".repeat(k)));
        out.push(format!("-perm {}", vec!["u+x"; k].join(",")));
        out.push(format!("-printf '{}'", "%p".repeat(k)));
        out.push(format!("-printf '{}'", "\\1".repeat(k)));
        out.push(format!("-printf '{}'", "\\".repeat(k)));
        out.push(format!("-printf '{}'", "a".repeat(k * 4)));
        out.push(format!("-name {}", "x".repeat(k * 4)));
        out.push(format!("-type {}", vec!["f"; k].join(",")));
        out.push(format!("{}", "-depth ".repeat(k)));
    }
    // 5d. very many characters that need escaping in one argument (cost per escape, not per byte)
    for k in [100usize, 1000, 3000, 10_000, 40_000, 150_000] {
        out.push(format!("-name {}", "\\".repeat(k)));
        out.push(format!("-name '{}'", "\"".repeat(k)));
        out.push(format!("-fprint '{}' -print0", "\"\\".repeat(k / 2)));
        out.push(format!("-printf '{}'", "\"~".repeat(k / 2)));
        out.push(format!("-pool {} -xattr {}", "\\".repeat(k / 2), "\\".repeat(k / 2)));
    }
    // 5c. a group as the right (and as the left) operand of each operator, nested 1..64 deep, with
    // each kind of primary innermost (tree walks that visit an operand more than once cost 2^depth)
    for k in 1..=64usize {
        for op in ["-a ", "", "-o ", ", "] {
            for inner in ["-print0", "-fprint f", "-printf %p", "-print", "-true", "-fls f", "-quit", "-mmin 1"] {
                let mut right = String::new();
                for i in 0..k {
                    right.push_str(&format!("-name a{i} {op}( "));
                }
                right.push_str(inner);
                right.push_str(&" )".repeat(k));
                out.push(right);
                let mut left = "( ".repeat(k);
                left.push_str(inner);
                for i in 0..k {
                    left.push_str(&format!(" ) {op}-name a{i}"));
                }
                out.push(left);
            }
        }
    }
    // 5a. many distinct resources in one expression (identifier numbers and frame tags grow)
    for k in [2usize, 9, 10, 16, 17, 30, 31, 32, 64, 100, 126, 127, 128, 129, 200, 254, 255, 256, 257, 300] {
        let files: Vec<String> = (0..k).map(|i| format!("-fprint f{i}")).collect();
        out.push(files.join(" "));
        let names: Vec<String> = (0..k).map(|i| format!("-name n{i}")).collect();
        if names.join(" -o ").len() + 10 <= 4096 {
            out.push(format!("( {} ) -print0", names.join(" -o ")));
            out.push(format!("{} -print", names.join(" -o ")));
        }
        let mixed: Vec<String> = (0..k).map(|i| format!("-name n{i} -fprint0 f{i}")).collect();
        if mixed.join(" -o ").len() <= 4096 {
            out.push(mixed.join(" -o "));
        }
    }
    // 5a'. an option word after k primaries (its token index grows)
    for k in (1..=130usize).chain([255, 256, 257, 300]) {
        let pre = vec!["-true"; k].join(" ");
        out.push(format!("{pre} -depth"));
        out.push(format!("{pre} -threads 3 -print"));
        out.push(format!("{pre} -o -depth"));
    }
    // 5b. a multi-byte character at every byte offset 0..=128 of a long word, in every position
    // a word can take (unknown word, bad argument of each argument language, good string argument)
    for off in 0..=128usize {
        for ch in ["é", "€", "😀"] {
            let word = format!("{}{ch}{}", "x".repeat(off), "y".repeat(12));
            for ctx in ["{}", "-true {}", "-uid {}", "-size {}", "-type {}", "-perm {}", "-amin {}", "-name {}", "-printf '%{}'", "-printf '{}%'", "-fprintf {} '%z'", "-threads {}", "( -name x {} )", "-xattr-match {} {}"] {
                out.push(ctx.replace("{}", &word));
            }
        }
    }
    // 6. keyword alone, with missing argument, followed by each other keyword
    for a in VOCAB {
        out.push(a.word.to_string());
        for b in VOCAB {
            out.push(format!("{} {}", a.word, b.word));
        }
    }
    out.push("-mmin 1 -fprint f".to_string());
    for p in ["]a[", "][", "a]b[c", "[]", "[!]", "[a-", "]", "[[]", "*[", "?]["] {
        for kw in ["-name", "-iname", "-path", "-ipath"] {
            out.push(format!("{kw} '{p}'"));
            out.push(format!("{kw} '{p}' -print0"));
        }
        out.push(format!("-xattr-match '{p}' '{p}'"));
    }
    // trees built through the public constructors (see children::built_trees)
    for k in 0..crate::props::children::built_trees().len() {
        out.push(format!("\u{1}T:{k}"));
    }
    out.push(String::new());
    out
}
