//! C10 — output routing: mode choice and destination table (DESIGN.md §4 C10).
use crate::conv;
use crate::policy::observe;
use crate::subject::{self, compile_render, C};
use serde_json::{json, Value};
use speclib::ast::*;
use speclib::eval::{self, coalesce};
use speclib::record::Record;
use speclib::report::{finish, panic_site, par_cases, Acc, Ctx, Finish, Tier, Violation};
use std::collections::BTreeSet;

fn nl() -> Fmt {
    Fmt::Special(Special::Newline)
}

fn actions() -> Vec<Expr> {
    let p = |x| Expr::Action(x);
    let fmt_nl = vec![Fmt::Field(Field::Name), nl()];
    let fmt_no = vec![Fmt::Field(Field::Name)];
    vec![
        p(Action::Print),
        p(Action::Print0),
        p(Action::Printf(fmt_nl.clone())),
        p(Action::Printf(fmt_no.clone())),
        p(Action::PrintFid),
        p(Action::FPrint("f".into())),
        p(Action::FPrint0("f".into())),
        p(Action::FPrintf("f".into(), fmt_nl.clone())),
        p(Action::FPrintf("f".into(), fmt_no.clone())),
        // the second file name is hostile on purpose: the table must carry it unchanged
        p(Action::FPrint("g \"q\\".into())),
        p(Action::FPrint0("g \"q\\".into())),
        p(Action::FPrintf("g \"q\\".into(), fmt_nl)),
        p(Action::FPrintf("g \"q\\".into(), fmt_no)),
        p(Action::Quit),
        Expr::Test(Test::True),
        // formats whose ending only looks like a newline escape (or is more than one)
        p(Action::Printf(vec![Fmt::Field(Field::Name), nl(), nl()])),
        p(Action::Printf(vec![Fmt::Field(Field::Name), Fmt::Special(Special::Ascii(0o14))])),
        p(Action::Printf(vec![Fmt::Field(Field::Name), Fmt::Lit("\\n".into())])),
        // a second spelling of the first file name: a different destination all the same
        p(Action::FPrint("./f".into())),
        p(Action::FPrint("f/".into())),
        p(Action::FPrint0(".//f".into())),
    ]
}

/// (destination, terminator) an output action denotes; None for actions that use no printer.
fn target(a: &Action) -> Option<(Option<String>, Option<char>)> {
    Some(match a {
        Action::Print => (None, Some('\n')),
        Action::Print0 => (None, Some('\0')),
        Action::Printf(_) => (None, None),
        Action::FPrint(f) => (Some(f.clone()), Some('\n')),
        Action::FPrint0(f) => (Some(f.clone()), Some('\0')),
        Action::FPrintf(f, _) => (Some(f.clone()), None),
        _ => return None,
    })
}

fn targets(e: &Expr) -> BTreeSet<(Option<String>, Option<char>)> {
    let mut s = BTreeSet::new();
    e.visit_leaves(&mut |l| {
        if let Expr::Action(a) = l {
            if let Some(t) = target(a) {
                s.insert(t);
            }
        }
    });
    s
}

fn has_fid(e: &Expr) -> bool {
    let mut f = false;
    e.visit_leaves(&mut |l| f |= matches!(l, Expr::Action(Action::PrintFid)));
    f
}

pub fn check(tree: &Expr, acc: &mut Acc) {
    check_with(tree, None, acc)
}

pub fn check_with(tree: &Expr, threads: Option<u32>, acc: &mut Acc) {
    check_opts(tree, false, threads, acc)
}

pub fn check_opts(tree: &Expr, depth: bool, threads: Option<u32>, acc: &mut Acc) {
    if tree.depth() > 20 {
        speclib::report::enter_case(|| format!("tree of depth {} with {} leaves: {}…", tree.depth(), tree.leaves(), tree.show().chars().take(120).collect::<String>()));
    }
    acc.states += 1;
    acc.transitions += 1;
    acc.validated += 1;
    let wit = || json!({"kind": "tree", "tree": tree, "threads": threads, "depth": depth});
    let real = match conv::expr_to_real(tree) {
        Some(r) => r,
        None => return,
    };
    let (text, io) = match compile_render(&real, &subject::options(depth, threads), "/dev") {
        C::Ok(v) => v,
        C::Err(e) => {
            acc.violate(Violation::new("C10:compile-refused", format!("{}: {e}", tree.show()), wit()));
            return;
        }
        C::Panic(p) => {
            acc.violate(Violation::new(format!("C10:panic:{}", panic_site(&p)), format!("{}: {p}", tree.show()), wit()));
            return;
        }
    };
    // mode rule
    let framed = tree.needs_framing();
    if io.is_some() != framed {
        acc.violate(Violation::new(
            if framed { "C10:plain-mode-chosen-but-framing-needed" } else { "C10:framed-mode-chosen-but-not-needed" },
            format!("{}: destination table {}, but the rule (file / NUL-terminated / format not ending in newline) says framed = {framed}", tree.show(), if io.is_some() { "present" } else { "absent" }),
            wit(),
        ));
        return;
    }
    acc.count(if framed { "framed" } else { "plain" }, 1);
    let rec = Record::distinct(1_700_000_000);
    let obs = match observe(&text, &io, std::slice::from_ref(&rec)) {
        Ok(o) => o,
        Err(e) => {
            let sig = if e.contains("not a key") {
                "C10:frame-tag-not-in-table"
            } else if e.contains("outside a frame") || e.contains("never closed") {
                "C10:bytes-outside-a-frame"
            } else {
                "C10:policy-runtime-failure"
            };
            acc.violate(Violation::new(sig, format!("{}: {e}", tree.show()), wit()));
            return;
        }
    };
    let got = &obs.records[0];
    if framed {
        if !got.unframed.is_empty() {
            let only_fid = has_fid(tree) && got.unframed.iter().all(|u| *u == format!("{}\n", rec.fid));
            acc.violate(Violation::new(
                if only_fid { "C10:bytes-outside-a-frame:print-file-fid" } else { "C10:bytes-outside-a-frame" },
                format!("{}: in framed mode the policy wrote {:?} to the shared port outside any frame", tree.show(), got.unframed),
                wit(),
            ));
            if !only_fid {
                return;
            }
        }
        let map = io.as_ref().unwrap();
        // equal pairs share a tag (keys are unique by construction), different pairs never do
        let vals: Vec<&(Option<String>, Option<char>)> = map.values().collect();
        let distinct: BTreeSet<_> = vals.iter().cloned().collect();
        if distinct.len() != vals.len() {
            acc.violate(Violation::new("C10:two-tags-for-one-destination", format!("{}: destination table {map:?} has two tags for one (destination, terminator) pair", tree.show()), wit()));
            return;
        }
        let want: BTreeSet<(Option<String>, Option<char>)> = targets(tree);
        let have: BTreeSet<(Option<String>, Option<char>)> = map.values().cloned().collect();
        if want != have {
            acc.violate(Violation::new(
                "C10:table-does-not-match-actions",
                format!("{}: destination table entries {have:?}; the actions name {want:?}", tree.show()),
                wit(),
            ));
            return;
        }
    }
    // frame i belongs to executed action i and its entry names that action's destination and
    // terminator: the decoded events must be the reference's events, in order
    let effective = if tree.has_action() { tree.clone() } else { Expr::and(tree.clone(), Expr::Action(Action::DefaultPrint)) };
    let want = eval::eval(&effective, &rec, 1_700_000_000).unwrap();
    let (g, w) = (coalesce(&got.events), coalesce(&want.events));
    acc.outcome(&(g.clone(), io.clone()));
    if g != w && !(framed && !got.unframed.is_empty()) {
        acc.violate(Violation::new(
            if framed { "C10:frame-routed-to-wrong-destination" } else { "C10:plain-output-differs" },
            format!("{}: decoded output {g:?}; the executed actions write {w:?}", tree.show()),
            wit(),
        ));
        return;
    }
    if framed {
        // exact frame-by-frame correspondence (not coalesced)
        let frames: Vec<(Option<String>, String)> = got.events.iter().filter(|e| !got.unframed.contains(&e.text) || e.dest.is_some()).map(|e| (e.dest.clone(), e.text.clone())).collect();
        let wants: Vec<(Option<String>, String)> = want
            .events
            .iter()
            .filter(|e| !(has_fid(tree) && e.dest.is_none() && e.text == format!("{}\n", rec.fid)))
            .map(|e| (e.dest.clone(), e.text.clone()))
            .collect();
        if got.unframed.is_empty() && frames != wants {
            acc.violate(Violation::new(
                "C10:frames-do-not-correspond-to-actions",
                format!("{}: frames {frames:?}; executed actions {wants:?}", tree.show()),
                wit(),
            ));
        }
    }
}

fn chain(items: &[Expr]) -> Expr {
    let mut it = items.iter().cloned();
    let mut acc = it.next().unwrap();
    for x in it {
        acc = Expr::and(acc, x);
    }
    acc
}

/// Placements of the actions under !/OR/',' with forcing constants so each action still runs.
fn placements(items: &[Expr]) -> Vec<Expr> {
    let t = Expr::Test(Test::True);
    let f = Expr::Test(Test::False);
    let mut out = vec![];
    // "false -o a" runs a; "! a" runs a; "a , b" runs both (',' is AND and actions yield true)
    let or_forced: Vec<Expr> = items.iter().map(|a| Expr::or(f.clone(), a.clone())).collect();
    out.push(chain(&or_forced));
    let negs: Vec<Expr> = items.iter().map(|a| Expr::or(Expr::not(a.clone()), t.clone())).collect();
    out.push(chain(&negs));
    let mut it = items.iter().cloned();
    let mut l = it.next().unwrap();
    for x in it {
        l = Expr::list(l, x);
    }
    out.push(l);
    // right-nested and dead-branch variants
    let mut it = items.iter().rev().cloned();
    let mut r = it.next().unwrap();
    for x in it {
        r = Expr::and(x, r);
    }
    out.push(r);
    out.push(Expr::or(chain(items), chain(items)));
    out.push(Expr::and(f.clone(), chain(items)));
    out.push(Expr::or(t, chain(items)));
    out
}

pub fn run(ctx: &Ctx) -> i32 {
    let acts = actions();
    let maxn = ctx.tier.pick(4, 6);
    let mut acc = Acc::new();
    for n in 1..=maxn {
        let total = (acts.len() as u64).pow(n as u32);
        acc = acc.merge(par_cases(total, |mut i, acc| {
            let mut items = vec![];
            for _ in 0..n {
                items.push(acts[(i % acts.len() as u64) as usize].clone());
                i /= acts.len() as u64;
            }
            check(&chain(&items), acc);
            if n <= 3 {
                for p in placements(&items) {
                    check(&p, acc);
                }
            }
            if n <= 2 {
                // the mode rule does not depend on the requested thread count
                for th in [1u32, 2, 16] {
                    check_with(&chain(&items), Some(th), acc);
                }
                check_opts(&chain(&items), true, None, acc);
                check_opts(&chain(&items), true, Some(1), acc);
            }
        }));
    }
    // many destinations
    let ns: Vec<usize> = (1..=300).collect();
    let fam = par_cases(ns.len() as u64 * 3, |i, acc| {
        let n = ns[(i / 3) as usize];
        let kind = i % 3;
        let items: Vec<Expr> = (0..n)
            .map(|k| match kind {
                0 => Expr::Action(Action::FPrint(format!("f{k}"))),
                1 => Expr::Action(if k % 2 == 0 { Action::FPrint(format!("f{}", k / 2)) } else { Action::FPrint0(format!("f{}", k / 2)) }),
                _ => Expr::and(Expr::Test(Test::Name(format!("n{k}*"))), Expr::Action(Action::FPrintf(format!("f{k}"), vec![Fmt::Field(Field::Name)]))),
            })
            .collect();
        // "name test -a fprintf" chains would short-circuit: force with OR true
        let items: Vec<Expr> = if kind == 2 { items.into_iter().map(|e| Expr::or(e, Expr::Test(Test::True))).collect() } else { items };
        check(&chain(&items), acc);
    });
    acc = acc.merge(fam);
    // file names that a find implementation might single out
    let mut special = Acc::new();
    for name in ["/dev/stdout", "/dev/stderr", "/dev/null", "/dev/fd/1", "-", "stdout", "", " ", "a/../b", "f\u{1e}g", "\u{2}"] {
        if name.is_empty() {
            continue;
        }
        for a in [Action::FPrint(name.into()), Action::FPrint0(name.into()), Action::FPrintf(name.into(), vec![Fmt::Field(Field::Name), nl()]), Action::Fls(name.into())] {
            if matches!(a, Action::Fls(_)) {
                continue; // not compilable: C12's subject
            }
            check(&Expr::Action(a.clone()), &mut special);
            check(&Expr::and(Expr::Action(Action::Print), Expr::Action(a.clone())), &mut special);
            check(&Expr::or(Expr::and(Expr::Test(Test::Name("x".into())), Expr::Action(a)), Expr::Action(Action::Print)), &mut special);
        }
    }
    // names of files that exist (plain, through "./", through a symbolic link): the table must
    // carry the name as written
    {
        let dir = speclib::report::root().join("target").join("c10-files").join(format!("{}", std::process::id()));
        let _ = std::fs::create_dir_all(dir.join("sub"));
        let _ = std::fs::write(dir.join("f"), b"x");
        #[cfg(unix)]
        let _ = std::os::unix::fs::symlink(dir.join("f"), dir.join("link"));
        let d = dir.to_string_lossy().to_string();
        for names in [[format!("{d}/f"), format!("{d}/./f")], [format!("{d}/link"), format!("{d}/f")], [format!("{d}/sub/../f"), format!("{d}/f")]] {
            check(&Expr::and(Expr::Action(Action::FPrint(names[0].clone())), Expr::Action(Action::FPrint(names[1].clone()))), &mut special);
            check(&Expr::and(Expr::Action(Action::FPrint0(names[1].clone())), Expr::Action(Action::FPrintf(names[0].clone(), vec![Fmt::Field(Field::Name)]))), &mut special);
        }
        let _ = std::fs::remove_dir_all(&dir);
    }
    acc = acc.merge(special);
    acc.sample(json!({"chain": chain(&[acts[1].clone(), acts[5].clone(), acts[0].clone()]).show()}));
    finish(
        ctx,
        acc,
        Finish {
            level: "model_checking",
            exhaustive: true,
            rule: "state = ordered sequence of actions (AND chain; for <= 3 actions also 7 placements under !/OR/',' with forcing constants); compiled by the real compile(); mode = presence of io_map() checked against the rule; the policy is executed once in the runtime model, the shared port's character stream decoded into frames through io_map() and compared frame by frame with the executed actions; table entries must be exactly the (destination, terminator) pairs of the tree's actions, one tag each; distinct = distinct (decoded output, table) pairs".into(),
            bound: format!("every sequence of 1..{maxn} items over 13 output actions + -quit + -true; 1- and 2-item sequences also under -threads 1, 2, 16 and under -depth; file names /dev/stdout, /dev/stderr, /dev/null, /dev/fd/1, -, and names containing the separator or a tag character; destination families of size {}", if ctx.tier == Tier::Quick { "1..3, 27..31, 64, 127..129, 255..257, 300" } else { "1..300" }),
            assumptions: vec![
                "runtime model of DESIGN.md §3: print-file-fid writes directly to the current output port".into(),
                "a format list that is empty is outside the alphabet (the rule 'last element is not a newline escape' does not decide it)".into(),
            ],
            extra: serde_json::Map::new(),
        },
    )
}

pub fn replay(w: &Value) -> Vec<Violation> {
    let mut acc = Acc::new();
    if let Ok(t) = serde_json::from_value::<Expr>(w["tree"].clone()) {
        check_opts(&t, w["depth"].as_bool().unwrap_or(false), w["threads"].as_u64().map(|t| t as u32), &mut acc);
    }
    acc.violations.into_values().map(|(v, _)| v).collect()
}
