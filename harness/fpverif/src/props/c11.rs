//! C11 — generated identifiers: bound once, before use, never captured (DESIGN.md §4 C11).
use crate::conv;
use crate::prog::Prog;
use crate::scope::{analyse, bound_refs};
use crate::subject::{self, compile_render, IoMap, C};
use serde_json::{json, Value};
use speclib::ast::*;
use speclib::eval as spec_eval;
use speclib::record::Record;
use speclib::report::{finish, panic_site, par_cases, Acc, Ctx, Finish, Tier, Violation};
use speclib::scm::eval::{closure_lookup, truthy, Ctl, Interp, SeqHost, Val};
use std::rc::Rc;

#[derive(Clone, Debug, PartialEq, Eq, Hash, PartialOrd, Ord)]
enum Req {
    /// (pattern, case-insensitive): which string the matcher is applied to is the leaf's business
    Matcher(String, bool),
    /// (destination, terminator)
    Printer(Option<String>, Option<char>),
}

fn request(leaf: &Expr) -> Option<Req> {
    Some(match leaf {
        Expr::Test(Test::Name(p)) | Expr::Test(Test::Path(p)) => Req::Matcher(p.clone(), false),
        Expr::Test(Test::IName(p)) | Expr::Test(Test::IPath(p)) => Req::Matcher(p.clone(), true),
        Expr::Action(Action::Print) => Req::Printer(None, Some('\n')),
        Expr::Action(Action::Print0) => Req::Printer(None, Some('\0')),
        Expr::Action(Action::Printf(_)) => Req::Printer(None, None),
        Expr::Action(Action::FPrint(f)) => Req::Printer(Some(f.clone()), Some('\n')),
        Expr::Action(Action::FPrint0(f)) => Req::Printer(Some(f.clone()), Some('\0')),
        Expr::Action(Action::FPrintf(f, _)) => Req::Printer(Some(f.clone()), None),
        _ => return None,
    })
}

fn menu() -> Vec<Expr> {
    let mut m = vec![];
    for p in ["a", "A", "a*", "b"] {
        m.push(Expr::Test(Test::Name(p.into())));
        m.push(Expr::Test(Test::IName(p.into())));
        m.push(Expr::Test(Test::Path(p.into())));
        m.push(Expr::Test(Test::IPath(p.into())));
    }
    // patterns whose letters are not ASCII, and a pattern next to its own escaped spelling
    for p in ["ж*", "Ж*", "a\\b", "a\\\\b", "q\"r", "q\\\"r"] {
        m.push(Expr::Test(Test::Name(p.into())));
        m.push(Expr::Test(Test::IName(p.into())));
    }
    let nl = Fmt::Special(Special::Newline);
    let p = |x| Expr::Action(x);
    m.push(p(Action::Print));
    m.push(p(Action::Print0));
    m.push(p(Action::Printf(vec![Fmt::Field(Field::Name), nl])));
    m.push(p(Action::Printf(vec![Fmt::Field(Field::Name)])));
    for f in ["f", "g"] {
        m.push(p(Action::FPrint(f.into())));
        m.push(p(Action::FPrint0(f.into())));
        m.push(p(Action::FPrintf(f.into(), vec![Fmt::Field(Field::Name)])));
    }
    // a destination some find implementations single out
    m.push(p(Action::FPrintf("/dev/stdout".into(), vec![Fmt::Field(Field::Name)])));
    m.push(p(Action::FPrint("/dev/stdout".into())));
    // names that differ only by leading dots and slashes
    for f in ["../f", "./f", ".f", "/f", "d//f", "d/f", "d/./f", "f/", "f\n", "f\0"] {
        m.push(p(Action::FPrint(f.into())));
    }
    // a file name next to its own escaped spelling (what a string literal of the program would
    // hold for it): two different files
    for f in ["a\\b", "a\\\\b", "q\"r", "q\\\"r"] {
        m.push(p(Action::FPrint(f.into())));
    }
    m.push(p(Action::FPrint0("a\\b".into())));
    m.push(p(Action::FPrintf("q\"r".into(), vec![Fmt::Field(Field::Name)])));
    // a name that ends in the other action's terminator
    m.push(p(Action::FPrintf("f\n".into(), vec![Fmt::Field(Field::Name)])));
    m.push(p(Action::FPrintf("f\0".into(), vec![Fmt::Field(Field::Name)])));
    m.push(p(Action::FPrintf("d/f".into(), vec![Fmt::Field(Field::Name)])));
    // star runs behind a backslash, equivalent globs
    for pat in ["\\*", "\\**", "a**b", "a*b", "core\\*", "core\\***"] {
        m.push(Expr::Test(Test::Name(pat.into())));
    }
    m
}

fn small_menu() -> Vec<Expr> {
    let m = menu();
    // one of each kind: name a, iname a, path a, name a*, iname ж*, name a\b, name a\\b, the stdout
    // printers, f / g printers, /dev/stdout, ../f and ./f
    let pick = ["Name(\"a\")", "IName(\"a\")", "Path(\"a\")", "Name(\"a*\")", "IName(\"ж*\")", "Name(\"ж*\")", "Name(\"a\\\\b\")", "Name(\"a\\\\\\\\b\")", "Print", "Print0", "FPrint(\"f\")", "FPrint0(\"f\")", "FPrint(\"g\")", "FPrint(\"../f\")", "FPrint(\"./f\")", "FPrint(\"/dev/stdout\")"];
    m.into_iter().filter(|e| pick.contains(&e.show().as_str())).collect()
}

fn chain(items: &[Expr]) -> Expr {
    let mut it = items.iter().cloned();
    let mut acc = it.next().unwrap();
    for x in it {
        acc = Expr::and(acc, x);
    }
    acc
}

pub fn check(leaves: &[Expr], acc: &mut Acc) {
    acc.states += 1;
    acc.transitions += 1;
    acc.validated += 1;
    let tree = chain(leaves);
    let wit = || json!({"kind": "history", "leaves": leaves});
    let show = || leaves.iter().map(|l| l.show()).collect::<Vec<_>>().join(" · ");
    let real = conv::expr_to_real(&tree).unwrap();
    let (text, io) = match compile_render(&real, &subject::options(false, None), "/dev") {
        C::Ok(v) => v,
        C::Err(e) => {
            acc.violate(Violation::new("C11:compile-refused", format!("{}: {e}", show()), wit()));
            return;
        }
        C::Panic(p) => {
            acc.violate(Violation::new(format!("C11:panic:{}", panic_site(&p)), format!("{}: {p}", show()), wit()));
            return;
        }
    };
    let prog = match Prog::read(&text) {
        Ok(p) => p,
        Err(e) => {
            acc.violate(Violation::new("C11:unreadable", format!("{}: {e}", show()), wit()));
            return;
        }
    };
    let shape = match prog.shape() {
        Ok(s) => s,
        Err(e) => {
            acc.violate(Violation::new("C11:program-shape", format!("{}: {e}", show()), wit()));
            return;
        }
    };
    // (1) bound once, (2) bound before use
    let sc = analyse(&prog.forms);
    if let Some(p) = sc.problems.first() {
        let sig = if p.contains("bound ") && p.contains(" times") {
            "C11:name-bound-twice"
        } else if p.contains("outside of") {
            "C11:use-before-binding"
        } else {
            "C11:unbound-identifier"
        };
        acc.violate(Violation::new(sig, format!("{}: {p}", show()), wit()));
        return;
    }
    // the body's references to bound names, in document order, are the leaves' resources in order
    let thunk = &shape.scan_args[2];
    let mut refs = vec![];
    if let Some(items) = thunk.as_list() {
        for b in items.iter().skip(2) {
            bound_refs(b, &sc.bound, &mut refs);
        }
    }
    let reqs: Vec<Req> = leaves.iter().filter_map(request).collect();
    if refs.len() != reqs.len() {
        acc.violate(Violation::new(
            "C11:body-references-do-not-match-leaves",
            format!("{}: the policy body references {refs:?} but the expression requests {} resources", show(), reqs.len()),
            wit(),
        ));
        return;
    }
    // (4) identical requests share one identifier, different requests never share
    for i in 0..reqs.len() {
        for j in i + 1..reqs.len() {
            if (reqs[i] == reqs[j]) != (refs[i] == refs[j]) {
                acc.violate(Violation::new(
                    if reqs[i] == reqs[j] { "C11:identical-requests-not-shared" } else { "C11:different-requests-share-a-resource" },
                    format!("{}: leaves {i} and {j} request {:?} and {:?} but reference {} and {}", show(), reqs[i], reqs[j], refs[i], refs[j]),
                    wit(),
                ));
                return;
            }
        }
    }
    // (3) behavioural resolution: apply what each reference denotes
    if let Err((sig, msg)) = behaviour(&prog, &io, &refs, &reqs) {
        acc.violate(Violation::new(sig, format!("{}: {msg}", show()), wit()));
        return;
    }
    acc.outcome(&(shape.bindings.iter().map(|b| b.0.clone()).collect::<Vec<_>>(), refs));
    if leaves.len() == 3 {
        acc.sample(json!({"history": show(), "bindings": shape.bindings.iter().map(|b| b.0.clone()).collect::<Vec<_>>()}));
    }
}

fn behaviour(prog: &Prog, io: &Option<IoMap>, refs: &[String], reqs: &[Req]) -> Result<(), (String, String)> {
    let mut host = SeqHost::new();
    let mut it = Interp::new(&mut host);
    it.capture_thunk = true;
    let fail = |e: Ctl| ("C11:policy-runtime-failure".to_string(), format!("{e:?}"));
    it.run_forms(&prog.forms).map_err(fail)?;
    let thunk = it.captured.clone().ok_or(("C11:program-shape".to_string(), "lipe-scan was not called".to_string()))?;
    let rec = Record::distinct(1_700_000_000);
    let mut probes: Vec<(usize, Val)> = vec![];
    for (i, name) in refs.iter().enumerate() {
        let v = closure_lookup(&thunk, name).ok_or(("C11:use-before-binding".to_string(), format!("{name} has no value where the policy runs")))?;
        probes.push((i, v));
    }
    let mut outputs: Vec<(usize, usize)> = vec![]; // (leaf, index into host.writes where its output starts)
    for (i, v) in &probes {
        match &reqs[*i] {
            Req::Matcher(p, ci) => {
                for s in ["a", "A", "ab", "b", "xa", "жук", "Жук", "a\\b", "ab", "a\\\\b", "q\"r", "q\\\"r"] {
                    let got = it.apply(v, vec![Val::Str(Rc::from(s))]).map_err(fail)?;
                    let want = spec_eval::test(&if *ci { Test::IName(p.clone()) } else { Test::Name(p.clone()) }, &Record { name: s.into(), ..rec.clone() }, 0).unwrap();
                    if truthy(&got) != want {
                        return Err((
                            "C11:reference-reaches-wrong-matcher".into(),
                            format!("leaf {i} requests the matcher for {p:?} (case-insensitive={ci}) but {} applied to {s:?} gives {}", refs[*i], truthy(&got)),
                        ));
                    }
                }
            }
            Req::Printer(..) => {
                it.cur = Some(rec.clone());
                it.host.begin_record(*i);
                outputs.push((*i, 0));
                it.apply(v, vec![Val::Str(Rc::from("PROBE"))]).map_err(fail)?;
                it.host.end_record(*i);
            }
        }
    }
    drop(it);
    // decode what each printer probe wrote
    for (i, _) in outputs {
        let writes: Vec<&(usize, usize, String, bool)> = host.writes.iter().filter(|w| w.0 == i).collect();
        let (dest, term): (Option<String>, Option<char>) = match io {
            None => {
                let port = writes.first().map(|w| w.1).unwrap_or(0);
                if writes.iter().any(|w| w.1 != port) {
                    return Err(("C11:reference-reaches-wrong-printer".into(), format!("leaf {i}: one print call wrote to several ports")));
                }
                let text: String = writes.iter().map(|w| w.2.clone()).collect();
                let d = if port == 0 { None } else { host.files.iter().find(|f| f.0 == port).map(|f| f.1.clone()) };
                let t = text.strip_prefix("PROBE").map(|r| r.chars().next());
                match t {
                    Some(t) => (d, t),
                    None => return Err(("C11:reference-reaches-wrong-printer".into(), format!("leaf {i}: printer wrote {text:?}"))),
                }
            }
            Some(map) => {
                let text: String = writes.iter().map(|w| w.2.clone()).collect();
                let mut parts = text.splitn(2, '\u{1e}');
                let payload = parts.next().unwrap_or("");
                let tag = parts.next().and_then(|t| t.chars().next());
                match (payload, tag.and_then(|t| map.get(&(t as u32)))) {
                    ("PROBE", Some((d, t))) => (d.clone(), *t),
                    _ => return Err(("C11:reference-reaches-wrong-printer".into(), format!("leaf {i}: framed printer wrote {text:?}, table {map:?}"))),
                }
            }
        };
        if Req::Printer(dest.clone(), term) != reqs[i] {
            return Err((
                "C11:reference-reaches-wrong-printer".into(),
                format!("leaf {i} requests {:?} but {} writes to destination {dest:?} with terminator {term:?}", reqs[i], refs[i]),
            ));
        }
    }
    Ok(())
}

fn seq_of(menu: &[Expr], n: usize, mut i: u64) -> Vec<Expr> {
    let mut v = vec![];
    for _ in 0..n {
        v.push(menu[(i % menu.len() as u64) as usize].clone());
        i /= menu.len() as u64;
    }
    v
}

/// Long histories: periodic kind patterns with fresh arguments.
fn long_history(pattern: &[u8], n: usize, framed: bool) -> Vec<Expr> {
    let mut v = vec![];
    let nl = Fmt::Special(Special::Newline);
    for k in 0..n {
        v.push(match pattern[k % pattern.len()] {
            0 => {
                if k % 3 == 0 {
                    Expr::Test(Test::Name(format!("m{k}*")))
                } else if k % 3 == 1 {
                    Expr::Test(Test::IName(format!("m{k}")))
                } else {
                    Expr::Test(Test::Path(format!("m{k}?")))
                }
            }
            1 => match (framed, k % 3) {
                (_, 0) => Expr::Action(Action::Print),
                (true, 1) => Expr::Action(Action::Print0),
                (true, _) => Expr::Action(Action::Printf(vec![Fmt::Field(Field::Name)])),
                (false, _) => Expr::Action(Action::Printf(vec![Fmt::Field(Field::Name), nl.clone()])),
            },
            _ => {
                if framed {
                    if k % 2 == 0 {
                        Expr::Action(Action::FPrint(format!("f{k}")))
                    } else {
                        Expr::Action(Action::FPrint0(format!("f{}", k - 1)))
                    }
                } else {
                    Expr::Test(Test::Name(format!("q{k}")))
                }
            }
        });
    }
    if framed && !v.iter().any(|e| e.needs_framing()) {
        v.push(Expr::Action(Action::Print0));
    }
    v
}

pub fn run(ctx: &Ctx) -> i32 {
    let m = menu();
    let sm = small_menu();
    let mut acc = Acc::new();
    let (full_len, small_len) = match ctx.tier {
        Tier::Quick => (3, 4),
        Tier::Thorough => (4, 5),
    };
    for n in 1..=full_len {
        let total = (m.len() as u64).pow(n as u32);
        acc = acc.merge(par_cases(total, |i, acc| check(&seq_of(&m, n, i), acc)));
    }
    for n in full_len + 1..=small_len {
        let total = (sm.len() as u64).pow(n as u32);
        acc = acc.merge(par_cases(total, |i, acc| check(&seq_of(&sm, n, i), acc)));
    }
    // long histories
    let mut patterns: Vec<Vec<u8>> = vec![];
    for len in 1..=4usize {
        for mut i in 0..3usize.pow(len as u32) {
            let mut p = vec![];
            for _ in 0..len {
                p.push((i % 3) as u8);
                i /= 3;
            }
            patterns.push(p);
        }
    }
    let ns: Vec<usize> = (1..=64).chain([100, 127, 128, 129, 200, 255, 256, 257, 300]).collect();
    let total = (patterns.len() * ns.len() * 2) as u64;
    acc = acc.merge(par_cases(total, |i, acc| {
        let framed = i % 2 == 1;
        let n = ns[((i / 2) % ns.len() as u64) as usize];
        let p = &patterns[(i / 2 / ns.len() as u64) as usize];
        check(&long_history(p, n, framed), acc);
    }));
    // every value of the identifier counter at the moment two new printers are requested in a row
    let counters: Vec<usize> = (2..=300).collect();
    acc = acc.merge(speclib::report::par_items(&counters, |c, acc| {
        for j in 0..2usize {
            if *c < 2 + j || (*c - 2 - j) % 2 != 0 {
                continue;
            }
            let k = (*c - 2 - j) / 2;
            let mut h: Vec<Expr> = (0..k).map(|i| Expr::Test(Test::Name(format!("m{i}")))).collect();
            for i in 0..j {
                h.push(Expr::Action(Action::FPrint(format!("e{i}"))));
            }
            h.push(Expr::Action(Action::FPrint("a.lst".into())));
            h.push(Expr::Action(Action::FPrint0("b.lst".into())));
            h.push(Expr::Action(Action::FPrint("a.lst".into())));
            check(&h, acc);
        }
    }));
    finish(
        ctx,
        acc,
        Finish {
            level: "model_checking",
            exhaustive: true,
            rule: "state = history of resource requests (matchers over patterns a/A/a*/b in three test kinds, printers over stdout/f/g x newline/NUL/none), realised as an AND chain and driven through the real compile(); the real managers are rebuilt and the history replayed for every state; on the read-back program: scope analysis (bound once, bound before use, no unknown identifier), the body's references in order against the requests (sharing exactly for equal requests), and each referenced procedure applied in the runtime model to probe strings / a probe line; distinct = distinct (binding names, body references) shapes".into(),
            bound: format!("every history of length 1..{full_len} over 24 requests and length {}..{small_len} over 12; periodic long histories (period <= 4 over matcher/stdout printer/file printer, fresh arguments) of {} sizes up to 300, plain and framed; for every value 2..300 of the identifier counter a history that requests two new printers in a row at exactly that value", full_len + 1, ns.len()),
            assumptions: vec!["runtime model of DESIGN.md §3 (make-printer, with-mutex, display)".into()],
            extra: serde_json::Map::new(),
        },
    )
}

pub fn replay(w: &Value) -> Vec<Violation> {
    let mut acc = Acc::new();
    if let Ok(l) = serde_json::from_value::<Vec<Expr>>(w["leaves"].clone()) {
        if !l.is_empty() {
            check(&l, &mut acc);
        }
    }
    acc.violations.into_values().map(|(v, _)| v).collect()
}
