//! C06 — equivalent spellings give identical results (DESIGN.md §4 C06).
use crate::subject::{parse_spec, PS};
use serde_json::{json, Value};
use speclib::ast::{Expr, Test};
use speclib::grammar::{self, Tok};
use speclib::report::{finish, panic_site, par_items, Acc, Ctx, Finish, Violation};

#[derive(Clone, Copy, Debug, PartialEq, Eq, Hash)]
enum Sym {
    LP,
    RP,
    Not,
    Comma,
    And,
    Or,
    P(u8),
}

const SYMS: [Sym; 15] = [
    Sym::LP,
    Sym::RP,
    Sym::Not,
    Sym::Comma,
    Sym::And,
    Sym::Or,
    Sym::P(0),
    Sym::P(1),
    Sym::P(2),
    Sym::P(3),
    Sym::P(4),
    Sym::P(5),
    Sym::P(6),
    Sym::P(7),
    Sym::P(8),
];

/// primaries: (keyword, argument value); the last two are option words, which stand where a
/// primary may stand (leading, options-only and in-expression placements all occur)
const PRIMS: [(&str, Option<&str>); 9] = [
    ("-true", None),
    ("-name", Some("x")),
    ("-perm", Some("u+x")),
    ("-printf", Some("%p\\n")),
    ("-uid", Some("+1")),
    ("-depth", None),
    ("-threads", Some("3")),
    // values that permit a single quoting style only: they must still come through unchanged
    ("-name", Some("a\"b c")),
    ("-iname", Some("it's")),
];

fn tok(s: Sym) -> Tok {
    match s {
        Sym::LP => Tok::LParen,
        Sym::RP => Tok::RParen,
        Sym::Not => Tok::Not,
        Sym::Comma => Tok::Comma,
        Sym::And => Tok::And,
        Sym::Or => Tok::Or,
        // the grammar only needs distinguishable primaries
        Sym::P(k) => Tok::Prim(Expr::Test(Test::Name(format!("p{k}")))),
    }
}

/// One spelling decision per site; the canonical spelling is all zeros.
#[derive(Clone, Debug, Default)]
struct Spelling {
    /// separator before word i (index 0 = leading blank), and trailing at the end
    sep: Vec<u8>,
    /// per symbol: variant index (And: 0 "-a" 1 "-and" 2 implicit; Or: 0 "-o" 1 "-or";
    /// primary: wrap 0 none 1 "( x )" 2 "(x)" 3 "( ( x ) )"; )
    var: Vec<u8>,
    /// per symbol (primaries with a string-class argument): 0 canonical 1 alt-a 2 alt-b
    quote: Vec<u8>,
    /// wrap the whole expression: 0 none 1 "( e )" 2 "(e)"
    whole: u8,
}

const SEPS: [&str; 6] = [" ", "  ", "\t", "\r", "\n", " \t\n"];
const SEP_NAMES: [&str; 6] = ["space", "two-spaces", "tab", "cr", "lf", "mixed"];

fn arg_spelling(k: u8, q: u8) -> String {
    let (_, arg) = PRIMS[k as usize];
    let a = arg.unwrap();
    match (k, q) {
        // -uid and -threads take a number: quoting is unspecified, never varied
        (4, _) | (6, _) => a.to_string(),
        (7, _) => format!("'{a}'"),
        (8, _) => format!("\"{a}\""),
        // the format's canonical spelling is single-quoted; alternatives: double-quoted, bare
        (3, 0) => format!("'{a}'"),
        (3, 1) => format!("\"{a}\""),
        (3, _) => a.to_string(),
        (_, 0) => a.to_string(),
        (_, 1) => format!("'{a}'"),
        (_, _) => format!("\"{a}\""),
    }
}

/// Render; returns None when the spelling is not applicable.
fn render(base: &[Sym], sp: &Spelling) -> String {
    // words with a flag "glue to previous / next" for the tight-parenthesis variants
    let mut words: Vec<String> = vec![];
    for (i, s) in base.iter().enumerate() {
        match s {
            Sym::LP => words.push("(".into()),
            Sym::RP => words.push(")".into()),
            Sym::Not => words.push("!".into()),
            Sym::Comma => words.push(",".into()),
            Sym::And => match sp.var[i] {
                0 => words.push("-a".into()),
                1 => words.push("-and".into()),
                _ => {}
            },
            Sym::Or => words.push(if sp.var[i] == 0 { "-o".into() } else { "-or".into() }),
            Sym::P(k) => {
                let (kw, arg) = PRIMS[*k as usize];
                let mut core = vec![kw.to_string()];
                if arg.is_some() {
                    core.push(arg_spelling(*k, sp.quote[i]));
                }
                match sp.var[i] {
                    0 => words.extend(core),
                    1 => {
                        words.push("(".into());
                        words.extend(core);
                        words.push(")".into());
                    }
                    2 => {
                        // tight: "(kw arg)" — glue the parentheses to their neighbours
                        let n = core.len();
                        for (j, w) in core.into_iter().enumerate() {
                            let mut w = w;
                            if j == 0 {
                                w = format!("({w}");
                            }
                            if j == n - 1 {
                                w = format!("{w})");
                            }
                            words.push(w);
                        }
                    }
                    _ => {
                        words.push("(".into());
                        words.push("(".into());
                        words.extend(core);
                        words.push(")".into());
                        words.push(")".into());
                    }
                }
            }
        }
    }
    match sp.whole {
        1 => {
            words.insert(0, "(".into());
            words.push(")".into());
        }
        2 => {
            let n = words.len();
            words[0] = format!("({}", words[0]);
            words[n - 1] = format!("{})", words[n - 1]);
        }
        _ => {}
    }
    let mut out = String::new();
    // separators are indexed by word position of the rendered list (bounded by sp.sep.len())
    for (i, w) in words.iter().enumerate() {
        let s = sp.sep.get(i).copied().unwrap_or(0);
        if i == 0 {
            if s != 0 {
                out.push_str(SEPS[s as usize]);
            }
        } else {
            out.push_str(SEPS[s as usize]);
        }
        out.push_str(w);
    }
    if let Some(s) = sp.sep.get(words.len()) {
        if *s != 0 {
            out.push_str(SEPS[*s as usize]);
        }
    }
    out
}

#[derive(Clone, Debug)]
struct Dev {
    kind: String,
    apply: (u8, usize, u8), // (field: 0 sep 1 var 2 quote 3 whole, index, value)
}

fn word_count(base: &[Sym]) -> usize {
    base.iter()
        .map(|s| match s {
            Sym::P(k) => 1 + PRIMS[*k as usize].1.is_some() as usize,
            _ => 1,
        })
        .sum()
}

fn deviations(base: &[Sym]) -> Vec<Dev> {
    let mut d = vec![];
    let wc = word_count(base);
    for pos in 0..=wc {
        for v in 1..SEPS.len() as u8 {
            let kind = if pos == 0 {
                format!("leading-{}", SEP_NAMES[v as usize])
            } else if pos == wc {
                format!("trailing-{}", SEP_NAMES[v as usize])
            } else {
                format!("sep-{}", SEP_NAMES[v as usize])
            };
            d.push(Dev { kind, apply: (0, pos, v) });
        }
    }
    for (i, s) in base.iter().enumerate() {
        match s {
            Sym::And => {
                d.push(Dev { kind: "and-as--and".into(), apply: (1, i, 1) });
                d.push(Dev { kind: "and-implicit".into(), apply: (1, i, 2) });
            }
            Sym::Or => d.push(Dev { kind: "or-as--or".into(), apply: (1, i, 1) }),
            Sym::P(k) => {
                // parentheses around an option word are not insignificant: they end a leading run
                if *k < 5 {
                    d.push(Dev { kind: "parens-spaced".into(), apply: (1, i, 1) });
                    d.push(Dev { kind: "parens-tight".into(), apply: (1, i, 2) });
                    d.push(Dev { kind: "parens-double".into(), apply: (1, i, 3) });
                }
                match k {
                    1 | 2 => {
                        d.push(Dev { kind: "quote-single".into(), apply: (2, i, 1) });
                        d.push(Dev { kind: "quote-double".into(), apply: (2, i, 2) });
                    }
                    3 => {
                        d.push(Dev { kind: "quote-double".into(), apply: (2, i, 1) });
                        d.push(Dev { kind: "quote-bare".into(), apply: (2, i, 2) });
                    }
                    _ => {}
                }
            }
            _ => {}
        }
    }
    if !matches!(base.first(), Some(Sym::P(5)) | Some(Sym::P(6))) {
        d.push(Dev { kind: "whole-parens-spaced".into(), apply: (3, 0, 1) });
        d.push(Dev { kind: "whole-parens-tight".into(), apply: (3, 0, 2) });
    }
    d
}

fn canonical(base: &[Sym]) -> Spelling {
    Spelling { sep: vec![0; word_count(base) + 8], var: vec![0; base.len()], quote: vec![0; base.len()], whole: 0 }
}

fn apply(sp: &mut Spelling, d: &Dev) {
    let (f, i, v) = d.apply;
    match f {
        0 => sp.sep[i] = v,
        1 => sp.var[i] = v,
        2 => sp.quote[i] = v,
        _ => sp.whole = v,
    }
}

fn compatible(a: &Dev, b: &Dev) -> bool {
    // two deviations at the same site are one deviation, not two
    !(a.apply.0 == b.apply.0 && a.apply.1 == b.apply.1)
        // separator indices refer to rendered word positions, which parentheses shift: combining
        // them is still a valid spelling (the separator lands between some pair of words)
        && true
}

fn bases(max_len: usize) -> Vec<Vec<Sym>> {
    let mut out = vec![];
    for len in 1..=max_len {
        let n = SYMS.len().pow(len as u32);
        for mut idx in 0..n {
            let mut s = Vec::with_capacity(len);
            for _ in 0..len {
                s.push(SYMS[idx % SYMS.len()]);
                idx /= SYMS.len();
            }
            let toks: Vec<Tok> = s.iter().map(|x| tok(*x)).collect();
            if grammar::parse(&toks).is_some() {
                out.push(s);
            }
        }
    }
    out
}

fn observe(input: &str) -> Result<(String, Expr), String> {
    match parse_spec(input) {
        PS::Ok(o, t) => Ok((o.dbg, t)),
        PS::Err(e) => Err(format!("error: {e}")),
        PS::Panic(p) => Err(format!("panic: {p}")),
    }
}

fn judge(canon_in: &str, variant: &str, kinds: &[&str], acc: &mut Acc) {
    acc.states += 1;
    acc.validated += 1;
    let want = observe(canon_in);
    let got = observe(variant);
    let mut ks: Vec<&str> = kinds.to_vec();
    ks.sort();
    ks.dedup();
    let wit = || json!({"kind": "pair", "canonical": canon_in, "variant": variant, "deviations": kinds});
    match (&want, &got) {
        (Ok(w), Ok(g)) if w == g => {
            acc.count("equal", 1);
            acc.outcome(&(&g.0, &g.1));
        }
        (Ok(w), Ok(g)) => acc.violate(Violation::new(
            format!("C06:{}:differs", ks.join("+")),
            format!("{variant:?} parses to {} / {} but its canonical spelling {canon_in:?} parses to {} / {}", g.0, g.1.show(), w.0, w.1.show()),
            wit(),
        )),
        (Ok(w), Err(e)) => {
            let sig = if e.starts_with("panic") { format!("C06:{}:panic:{}", ks.join("+"), panic_site(&e[7..])) } else { format!("C06:{}:rejected", ks.join("+")) };
            acc.violate(Violation::new(sig, format!("{variant:?} is rejected ({e}) but its canonical spelling {canon_in:?} parses to {}", w.1.show()), wit()))
        }
        (Err(e), _) => acc.violate(Violation::new(
            "C06:canonical-spelling-rejected",
            format!("canonical spelling {canon_in:?} of a grammar sentence is rejected ({e})"),
            wit(),
        )),
    }
}

fn check_base(base: &Vec<Sym>, acc: &mut Acc) {
    let canon = canonical(base);
    let canon_in = render(base, &canon);
    if base.iter().any(|s| matches!(s, Sym::P(5) | Sym::P(6))) {
        // an option word next to an operator at the front of the input (`-depth -a -name x`) is
        // not a sentence once the leading run is removed: only bases the text-level reference
        // accepts take part
        if !matches!(speclib::textspec::parse(&canon_in), speclib::textspec::Spec::Accept { .. }) {
            acc.skip("base with an option word that the reference does not accept in that position");
            return;
        }
    }
    // the canonical spelling itself must mean what the text-level reference says
    match crate::textcmp::compare(&canon_in) {
        crate::textcmp::Verdict::AgreeAccept(_) | crate::textcmp::Verdict::Skip(_) => {}
        other => {
            acc.violate(Violation::new(
                "C06:canonical-spelling-misread",
                format!("the canonical spelling {canon_in:?} is not read as the reference reads it: {other:?}"),
                json!({"kind": "pair", "canonical": canon_in, "variant": canon_in, "deviations": ["none"]}),
            ));
            return;
        }
    }
    let devs = deviations(base);
    acc.transitions += devs.len() as u64;
    // 0 deviations
    judge(&canon_in, &canon_in, &["none"], acc);
    // 1 deviation
    for d in &devs {
        let mut sp = canon.clone();
        apply(&mut sp, d);
        judge(&canon_in, &render(base, &sp), &[&d.kind], acc);
    }
    // 2 deviations
    for (i, a) in devs.iter().enumerate() {
        for b in &devs[i + 1..] {
            if !compatible(a, b) {
                continue;
            }
            let mut sp = canon.clone();
            apply(&mut sp, a);
            apply(&mut sp, b);
            judge(&canon_in, &render(base, &sp), &[&a.kind, &b.kind], acc);
        }
    }
    // every site of one kind at once
    let mut kinds: Vec<&str> = devs.iter().map(|d| d.kind.as_str()).collect();
    kinds.sort();
    kinds.dedup();
    for k in kinds {
        let mut sp = canon.clone();
        for d in devs.iter().filter(|d| d.kind == k) {
            apply(&mut sp, d);
        }
        let all = format!("all-{k}");
        judge(&canon_in, &render(base, &sp), &[&all], acc);
    }
    if base.len() <= 2 {
        acc.sample(json!({"canonical": canon_in, "deviation_sites": devs.len()}));
    }
}

/// Long inputs: n operands joined by one operator; every operand parenthesised (spaced, tight),
/// every gap widened, every AND spelt out / left implicit — against the plain spelling.
fn long_forms(acc: &mut Acc) {
    for n in 2usize..=257 {
        for (op, alt) in [("-o", "-or"), ("-a", "-and"), (",", ",")] {
            let prim = |k: usize| format!("-name n{k}");
            let plain: Vec<String> = (0..n).map(prim).collect();
            let canon = plain.join(&format!(" {op} "));
            if canon.len() > 4000 {
                continue;
            }
            let spaced: Vec<String> = plain.iter().map(|p| format!("( {p} )")).collect();
            let tight: Vec<String> = plain.iter().map(|p| format!("({p})")).collect();
            let quoted: Vec<String> = (0..n).map(|k| format!("-name 'n{k}'")).collect();
            acc.transitions += 6;
            judge(&canon, &spaced.join(&format!(" {op} ")), &["many-parens-spaced"], acc);
            judge(&canon, &tight.join(&format!(" {op} ")), &["many-parens-tight"], acc);
            judge(&canon, &plain.join(&format!("\t{op}\n")), &["many-sep-mixed"], acc);
            judge(&canon, &plain.join(&format!(" {alt} ")), &["many-operator-synonym"], acc);
            judge(&canon, &quoted.join(&format!(" {op} ")), &["many-quote-single"], acc);
            if op == "-a" {
                judge(&canon, &plain.join(" "), &["many-and-implicit"], acc);
            }
        }
    }
}

/// Equivalent spellings must stay equivalent whatever was parsed before on the same thread:
/// each (canonical, variant) pair is judged on a fresh thread right after a priming parse of a
/// text that differs from them only inside a quoted value (or only in blanks between words).
fn primed_pairs(acc: &mut Acc) {
    let values = ["a b", "a  b", "a\tb", "a   b "];
    let mut jobs: Vec<(String, String, String)> = vec![];
    for (kw, wrap) in [("-name", ""), ("-fprint", ""), ("-printf", ""), ("-xattr-match k", "")] {
        let _ = wrap;
        for v1 in values {
            for v2 in values {
                if v1 == v2 {
                    continue;
                }
                jobs.push((format!("{kw} '{v1}'"), format!("{kw} \"{v2}\""), format!("{kw} '{v2}'")));
                jobs.push((format!("{kw} '{v1}' -print"), format!("{kw} '{v2}' -print"), format!("{kw}   '{v2}'\t-print ")));
            }
        }
    }
    let fresh = |steps: Vec<String>| -> Result<(String, Expr), String> {
        std::thread::scope(|s| {
            s.spawn(move || {
                let mut last = Err("no step".to_string());
                for st in &steps {
                    last = observe(st);
                }
                last
            })
            .join()
            .unwrap_or_else(|_| Err("thread died".into()))
        })
    };
    // blank inputs right after a successful parse
    for prime in ["-print", "-depth -name x", "-threads 3 -true"] {
        for blank in ["", " ", "\t\n"] {
            jobs.push((prime.to_string(), "-true".to_string(), blank.to_string()));
        }
    }
    // worn threads: 600 refused texts (errors inside a group, unclosed groups) before the pair
    let mut worn: Vec<(Vec<String>, String)> = vec![];
    for bad in ["( )", "( -name a -o )", "( ( -name a )", "( ! )", "( -name a , )", "-name a -o ( -nosuch )", "( -uid x )"] {
        worn.push((vec![bad.to_string(); 600], format!("600 x {bad:?}")));
    }
    worn.push((vec![format!("{}-name a", "( ".repeat(60)); 30], "30 x 60 unclosed groups".into()));
    worn.push((vec![format!("{}-name a{}", "( ".repeat(64), " )".repeat(64)); 100], "100 x 64 nested groups".into()));
    for (steps, told) in worn {
        for (canon, variant) in [("-name a", "( -name a )"), ("-name a -o -name b", "(-name a) -or ((-name b))"), ("! -name a", "! ( -name a )")] {
            acc.transitions += steps.len() as u64 + 2;
            acc.states += 2;
            let mut st = steps.clone();
            st.push(variant.to_string());
            let primed = fresh(st);
            let alone = fresh(vec![canon.to_string()]);
            if primed != alone {
                acc.violate(Violation::new(
                    "C06:after-many-refused-texts:differs",
                    format!("{variant:?} parsed after {told} on the same thread gives {:?}; its equivalent spelling {canon:?} parsed on a fresh thread gives {:?}", primed.as_ref().map(|x| x.1.show()), alone.as_ref().map(|x| x.1.show())),
                    json!({"kind": "worn", "told": told, "first": variant, "second": canon}),
                ));
            }
        }
    }
    for (prime, canon, variant) in jobs {
        acc.transitions += 2;
        acc.states += 2;
        for (a, b) in [(&variant, &canon), (&canon, &variant)] {
            // a is read right after the priming text; b on a thread of its own
            let primed = fresh(vec![prime.clone(), a.clone()]);
            let alone = fresh(vec![b.clone()]);
            if primed != alone {
                acc.violate(Violation::new(
                    "C06:after-earlier-parse-of-a-similar-text:differs",
                    format!("{a:?} parsed right after {prime:?} on the same thread gives {:?}; its equivalent spelling {b:?} parsed on a fresh thread gives {:?}", primed.as_ref().map(|x| x.1.show()), alone.as_ref().map(|x| x.1.show())),
                    json!({"kind": "primed", "prime": prime, "first": a, "second": b}),
                ));
            }
        }
    }
}

/// Option words may be parenthesised and repeated with different values; whether a pair of
/// parentheses around an option word changes the tree depends on where it stands, so these
/// spellings are judged one by one against the text-level reference instead of against a
/// canonical spelling: every sentence of <= 5 symbols over {(, ), -o, -threads 2, -threads 4,
/// -depth, -name x}, as written, with touching parentheses, and with each primary parenthesised.
fn option_spellings() -> Acc {
    const A: [&str; 7] = ["(", ")", "-o", "-threads 2", "-threads 4", "-depth", "-name x"];
    let mut seqs: Vec<Vec<&str>> = vec![];
    for len in 1..=5u32 {
        for mut idx in 0..7usize.pow(len) {
            let mut s = vec![];
            for _ in 0..len {
                s.push(A[idx % 7]);
                idx /= 7;
            }
            let toks: Vec<Tok> = s
                .iter()
                .map(|w| match *w {
                    "(" => Tok::LParen,
                    ")" => Tok::RParen,
                    "-o" => Tok::Or,
                    _ => Tok::Prim(Expr::Test(Test::True)),
                })
                .collect();
            if grammar::parse(&toks).is_some() {
                seqs.push(s);
            }
        }
    }
    speclib::report::par_items(&seqs, |s, acc| {
        let plain = s.join(" ");
        let mut variants = vec![plain.clone(), plain.replace("( ", "(").replace(" )", ")")];
        for i in 0..s.len() {
            if s[i].starts_with('-') && s[i] != "-o" {
                let mut v: Vec<String> = s.iter().map(|w| w.to_string()).collect();
                v[i] = format!("( {} )", s[i]);
                variants.push(v.join(" "));
                v[i] = format!("(({}))", s[i]);
                variants.push(v.join(" "));
            }
        }
        for v in variants {
            acc.states += 1;
            acc.transitions += 1;
            acc.validated += 1;
            acc.count("option_spellings", 1);
            use crate::textcmp::Verdict as V;
            let problem = match crate::textcmp::compare(&v) {
                V::AgreeAccept(_) | V::AgreeReject(..) | V::Skip(_) => None,
                V::Panic(p) => Some(("panic", p)),
                V::AcceptsRejected { tree, .. } => Some(("accepted", format!("accepted as {} but the reference rejects it", tree.show()))),
                V::RejectsAccepted { err, want } => Some(("rejected", format!("rejected ({err}); the reference reads {}", want.show()))),
                V::WrongTree { got, want } => Some(("tree-differs", format!("tree {}; the reference reads {}", got.show(), want.show()))),
                V::WrongOptions { got, want } => Some(("options-differ", format!("options {}; the reference reads {want:?} (the last option of a kind wins, wherever it stands)", got.dbg))),
            };
            if let Some((k, d)) = problem {
                acc.violate(Violation::new(format!("C06:option-word-spelling:{k}"), format!("{v:?}: {d}"), json!({"kind": "option-spelling", "input": v})));
            }
        }
    })
}

/// Every keyword of the vocabulary with several members of its argument language (values that
/// look like numbers, units, keywords, operators), spelled alone, in spaced / touching / double
/// parentheses, under `!`, and — for free-text arguments — bare, single- and double-quoted:
/// all spellings of one primary must give the same result.
fn every_primary_spellings() -> Acc {
    use speclib::textspec::{ArgKind as K, VOCAB};
    let mut cases: Vec<(String, Vec<String>, bool)> = vec![]; // (keyword, args, all args are free text)
    for kw in VOCAB {
        let choices: Vec<Vec<&str>> = kw
            .args
            .iter()
            .map(|a| match a {
                K::Str => vec!["x", "1000", "0", "+5", "5k", "5d", "f", "644", "-o", "-print", "true", "%p", "a.b", "..", "x/"],
                K::U32Cmp | K::U64Cmp => vec!["5", "+5", "-5", "0"],
                K::SizeCmp => vec!["5", "+5k", "-5M", "5c", "5G"],
                K::TimeCmpMin | K::TimeCmpDay => vec!["5", "+5d", "-5h", "5m", "5s"],
                K::TypeList => vec!["f", "f,d", "l"],
                K::Perm => vec!["644", "-644", "/u+w", "u=rw,g=r"],
                K::Format => vec!["%p", "%s"],
                K::U32 => vec!["3"],
            })
            .collect();
        let free = kw.args.iter().all(|a| *a == K::Str) && !kw.args.is_empty();
        match choices.len() {
            0 => cases.push((kw.word.to_string(), vec![], false)),
            1 => {
                for a in &choices[0] {
                    cases.push((kw.word.to_string(), vec![a.to_string()], free));
                }
            }
            _ => {
                for a in &choices[0] {
                    for b in &choices[1] {
                        cases.push((kw.word.to_string(), vec![a.to_string(), b.to_string()], free));
                    }
                }
            }
        }
    }
    speclib::report::par_items(&cases, |(kw, args, free), acc| {
        let plain = std::iter::once(kw.clone()).chain(args.iter().cloned()).collect::<Vec<_>>().join(" ");
        // option words are not insignificant inside parentheses (they leave the leading run)
        let is_option = matches!(kw.as_str(), "-depth" | "-threads" | "-maxdepth" | "-mindepth");
        let mut variants: Vec<(String, &str)> = vec![(format!(" {plain}\t"), "blanks")];
        if !args.is_empty() {
            for (sep, kind) in [("  ", "gaps-two-spaces"), ("\t", "gaps-tab"), ("\n", "gaps-lf"), (" \r\n ", "gaps-mixed")] {
                variants.push((std::iter::once(kw.clone()).chain(args.iter().cloned()).collect::<Vec<_>>().join(sep), kind));
            }
        }
        if !is_option {
            variants.push((format!("( {plain} )"), "parens-spaced"));
            variants.push((format!("({plain})"), "parens-tight"));
            variants.push((format!("(({plain}))"), "parens-double"));
            variants.push((format!("( ({plain}) )"), "parens-mixed"));
        }
        if *free {
            for q in ["'", "\""] {
                let quoted = std::iter::once(kw.clone()).chain(args.iter().map(|a| format!("{q}{a}{q}"))).collect::<Vec<_>>().join(" ");
                variants.push((quoted.clone(), if q == "'" { "quote-single" } else { "quote-double" }));
                if !is_option {
                    variants.push((format!("({quoted})"), "quote+parens-tight"));
                }
            }
        }
        if observe(&plain).is_err() {
            // a primary that is refused (unsupported option, value outside the language) must be
            // refused in every spelling
            for (v, kind) in variants {
                acc.transitions += 1;
                acc.states += 1;
                if let Ok(g) = observe(&v) {
                    acc.violate(Violation::new(
                        format!("C06:{kind}+every-primary:accepted-but-canonical-refused"),
                        format!("{v:?} parses to {} although {plain:?} is refused", g.1.show()),
                        json!({"kind": "pair", "canonical": plain, "variant": v, "deviations": [kind, "every-primary"]}),
                    ));
                }
            }
            return;
        }
        for (v, kind) in variants {
            acc.transitions += 1;
            judge(&plain, &v, &[kind, "every-primary"], acc);
        }
        // and the same under negation, compared with the negated canonical spelling
        if !is_option {
            acc.transitions += 2;
            judge(&format!("! {plain}"), &format!("!({plain})"), &["negated-parens-tight", "every-primary"], acc);
            judge(&format!("! {plain}"), &format!("! ( {plain} )"), &["negated-parens-spaced", "every-primary"], acc);
        }
    })
}

fn blank_inputs(acc: &mut Acc) {
    let blanks = [' ', '\t', '\r', '\n'];
    for len in 0..=4u32 {
        for mut idx in 0..4usize.pow(len) {
            let mut s = String::new();
            for _ in 0..len {
                s.push(blanks[idx % 4]);
                idx /= 4;
            }
            judge("-true", &s, &["blank-only-input"], acc);
            acc.transitions += 1;
        }
    }
}

pub fn run(ctx: &Ctx) -> i32 {
    let n = ctx.tier.pick(4, 5);
    let bs = bases(n);
    let mut acc = par_items(&bs, check_base);
    let mut b = Acc::new();
    blank_inputs(&mut b);
    long_forms(&mut b);
    primed_pairs(&mut b);
    acc = acc.merge(b);
    acc = acc.merge(option_spellings());
    acc = acc.merge(every_primary_spellings());
    let mut extra = serde_json::Map::new();
    extra.insert("base_expressions".into(), json!(bs.len()));
    finish(
        ctx,
        acc,
        Finish {
            level: "model_checking",
            exhaustive: true,
            rule: "state = (base sentence, set of spelling deviations); deviation-bounded exploration: 0, 1 and 2 simultaneous departures from the canonical spelling at every site with every value, plus all sites of one kind at once; distinct = distinct (options, tree) results".into(),
            bound: format!("every grammar sentence of <= {n} symbols over 15 symbols (5 primaries, the option words -depth and -threads 3, so options-only and option-led inputs occur, and two name tests whose value contains the other quote character); deviation bound 2; all 341 blank-only inputs of length 0..4; chains of 8..257 operands (every size in the range) with every operand parenthesised / every gap widened / every operator replaced by its synonym / every value quoted; 96 (canonical, variant) pairs judged on a fresh thread right after parsing a text that differs only inside a quoted value, and after 600 refused texts of nine kinds; every sentence of <= 5 symbols over (, ), -o, -threads 2, -threads 4, -depth, -name x with each primary (option words included) parenthesised, against the text-level reference; every vocabulary keyword with 1..15 members of its argument language (values that look like numbers, units, keywords) in 5 layouts, negated, and bare / single- / double-quoted"),
            assumptions: vec![
                "insignificant spelling = blanks (space, tab, CR, LF) between words and at the ends, -a/-and/juxtaposition, -o/-or, redundant parentheses (spaced or touching their operand), quoting style of string-class arguments".into(),
                "quoting of numeric arguments is unspecified and never varied".into(),
            ],
            extra,
        },
    )
}

pub fn replay(w: &Value) -> Vec<Violation> {
    let mut acc = Acc::new();
    let kinds: Vec<String> = w["deviations"].as_array().map(|a| a.iter().filter_map(|x| x.as_str().map(String::from)).collect()).unwrap_or_default();
    let ks: Vec<&str> = kinds.iter().map(|s| s.as_str()).collect();
    if w["kind"] == "option-spelling" {
        return option_spellings().violations.into_values().map(|(v, _)| v).collect();
    }
    if w["kind"] == "primed" || w["kind"] == "worn" {
        primed_pairs(&mut acc);
        return acc.violations.into_values().map(|(v, _)| v).collect();
    }
    let (c, v) = (w["canonical"].as_str().unwrap_or(""), w["variant"].as_str().unwrap_or(""));
    if c == v && !matches!(crate::textcmp::compare(c), crate::textcmp::Verdict::AgreeAccept(_) | crate::textcmp::Verdict::Skip(_)) {
        acc.violate(Violation::new("C06:canonical-spelling-misread", format!("{c:?} is not read as the reference reads it"), w.clone()));
    }
    judge(c, v, &ks, &mut acc);
    acc.violations.into_values().map(|(v, _)| v).collect()
}
