//! C20 — compile once, render for any device: only the device path varies (DESIGN.md §4 C20).
use crate::conv;
use crate::prog::Prog;
use crate::subject::{self, compile_handle, Handle, IoMap, C};
use serde_json::{json, Value};
use speclib::ast::*;
use speclib::report::{finish, panic_site, par_cases, Acc, Ctx, Finish, Violation};
use speclib::scm::reader::{Datum, Node};

fn devices() -> Vec<String> {
    vec![
        "/".into(),
        "/dev/mdt0".into(),
        "a b".into(),
        "a\"b".into(),
        "a\\".into(),
        "a\\\\\"".into(),
        "\")(x".into(),
        "é".into(),
        "line1\nline2".into(),
        "x".repeat(4000),
        "/dev/{options}".into(),
        "{mdt}".into(),
        "/mnt/mdt0\r\n.snap".into(),
        "a\rb\tc".into(),
        "/mnt/lustre/😀/mdt0".into(),
        "/.".into(),
        "/..".into(),
        ".".into(),
        "/proc/self".into(),
        "/tmp/../tmp".into(),
        "/dev/mapper/vg0-mdt0".into(),
        "-a".into(),
        "/dev/mapper/mdt0/".into(),
        "/dev//mapper/mdt0".into(),
        "//".into(),
        "a/./b".into(),
        "a/../b".into(),
        "./x".into(),
        "~/mdt0".into(),
        " /mnt/mdt0".into(),
        "/mnt/mdt0\n".into(),
        "\t/x ".into(),
        " ".into(),
        "".into(),
        "/mnt/\u{10000}0".into(),
    ]
}

fn exprs() -> Vec<(Expr, Option<u32>)> {
    let t = |x| Expr::Test(x);
    let a = |x| Expr::Action(x);
    let nl = Fmt::Special(Special::Newline);
    // every directive the target supports, in one format (among them the ones that speak about
    // where the scan started, %H and %P), and every kind of test in one conjunction: nothing
    // but the scan call may depend on the device
    let all_fields: Vec<Fmt> = crate::props::c02::supported_fields().into_iter().flat_map(|f| [Fmt::Field(f), Fmt::Lit(" ".into())]).collect();
    let mut with_nl = all_fields.clone();
    with_nl.push(nl.clone());
    let mut every_test = t(Test::True);
    let mut seen = std::collections::BTreeSet::new();
    for l in crate::props::c02::full_menu() {
        if let Expr::Test(x) = &l {
            let kind = format!("{x:?}").split(|c: char| !c.is_alphanumeric()).next().unwrap_or("").to_string();
            // (time tests embed the second of the compile call: two compilations differ there by
            // design, which C15 judges; they stay out of this differential check)
            if !kind.ends_with("Time") && seen.insert(kind) {
                every_test = Expr::and(every_test, l.clone());
            }
        }
    }
    let mut v = vec![
        (a(Action::Printf(with_nl.clone())), None),
        (Expr::and(a(Action::FPrintf("all".into(), all_fields)), a(Action::Printf(vec![Fmt::Field(Field::StartingPoint), Fmt::Field(Field::NameNoStart)]))), Some(2)),
        (Expr::or(every_test, a(Action::FPrintf("t".into(), with_nl))), None),
    ];
    v.extend(exprs_small());
    v
}

fn exprs_small() -> Vec<(Expr, Option<u32>)> {
    let t = |x| Expr::Test(x);
    let a = |x| Expr::Action(x);
    let nl = Fmt::Special(Special::Newline);
    vec![
        (t(Test::True), None),
        (a(Action::Print), None),
        (a(Action::Print0), None),
        (Expr::and(t(Test::Name("*.c".into())), a(Action::Print)), Some(4)),
        (Expr::or(t(Test::IName("a".into())), t(Test::Path("b*".into()))), None),
        (a(Action::FPrint("out".into())), None),
        (Expr::and(a(Action::FPrint("out".into())), a(Action::FPrint0("out".into()))), Some(1)),
        (a(Action::Printf(vec![Fmt::Field(Field::Name), nl.clone()])), None),
        (a(Action::Printf(vec![Fmt::Field(Field::Name)])), None),
        (a(Action::FPrintf("f".into(), vec![Fmt::Field(Field::SizeBytes), nl.clone()])), Some(16)),
        (Expr::and(t(Test::Uid(Cmp::Gt, 5)), a(Action::Quit)), None),
        (Expr::list(a(Action::Print), a(Action::PrintFid)), None),
        (Expr::not(t(Test::Perm(PermKind::AtLeast, 0o111))), None),
        (t(Test::Pool("flash".into())), None),
        (t(Test::XattrMatch("user.*".into(), "v".into())), None),
        (Expr::and(t(Test::Name("/".into())), a(Action::Print)), None),
        (Expr::and(t(Test::Name("/dev/mdt0".into())), a(Action::FPrint("/dev/mdt0".into()))), None),
        (Expr::or(Expr::and(t(Test::Type(vec![FType::File])), a(Action::Print)), a(Action::Print0)), Some(2)),
        (t(Test::Size(Cmp::Lt, 3, SizeUnit::Mega)), None),
        (Expr::and(t(Test::Name("x".into())), Expr::and(a(Action::FPrint("a".into())), a(Action::FPrint("b".into())))), None),
        // user text that looks like a placeholder of a templating step
        (Expr::and(t(Test::Name("{mdt}".into())), a(Action::Print)), None),
        (Expr::and(t(Test::IName("x{mdt}y".into())), a(Action::FPrint("{mdt}".into()))), None),
        (Expr::and(t(Test::Pool("{}".into())), a(Action::Printf(vec![Fmt::Lit("{mdt} {0} {policy} $mdt %mdt% ".into()), nl.clone()]))), Some(3)),
        (Expr::or(t(Test::Path("{device}".into())), t(Test::Xattr("{path}".into()))), None),
        (Expr::and(t(Test::Name("{terminate}".into())), Expr::and(t(Test::Name("{options}".into())), t(Test::Name("{policy}".into())))), Some(5)),
    ]
}

#[derive(Clone, Copy, Debug, PartialEq)]
enum Op {
    Scheme(usize),
    IoMap,
}

fn fresh(e: &Expr, threads: Option<u32>) -> Result<Handle, String> {
    let real = conv::expr_to_real(e).ok_or("not representable")?;
    match compile_handle(&real, &subject::options(false, threads)) {
        C::Ok(h) => Ok(h),
        C::Err(e) => Err(format!("compile error: {e}")),
        C::Panic(p) => Err(format!("panic: {p}")),
    }
}

/// Leaves of two datum trees that differ, as (path description, left, right).
fn diff_leaves(a: &Node, b: &Node, out: &mut Vec<(String, String)>) {
    match (&a.d, &b.d) {
        (Datum::List(x), Datum::List(y)) if x.len() == y.len() => {
            for (p, q) in x.iter().zip(y.iter()) {
                diff_leaves(p, q, out);
            }
        }
        (x, y) if x == y => {}
        _ => out.push((a.show(), b.show())),
    }
}

struct Baseline {
    texts: Vec<String>,
    io: Option<IoMap>,
}

fn baseline(e: &Expr, threads: Option<u32>, devs: &[String]) -> Result<Baseline, String> {
    let mut texts = vec![];
    for d in devs {
        let h = fresh(e, threads)?;
        texts.push(h.scheme(d).map_err(|p| format!("panic: {p}"))?);
    }
    let h = fresh(e, threads)?;
    Ok(Baseline { texts, io: h.io_map().map_err(|p| format!("panic: {p}"))? })
}

fn check_seq(ei: usize, e: &Expr, threads: Option<u32>, devs: &[String], base: &Baseline, ops: &[Op], acc: &mut Acc) {
    acc.states += 1;
    acc.transitions += 1;
    acc.validated += 1;
    let wit = || {
        json!({"kind": "c20", "expr": ei, "ops": ops.iter().map(|o| match o { Op::Scheme(d) => json!({"scheme": d}), Op::IoMap => json!("io_map") }).collect::<Vec<_>>()})
    };
    let h = match fresh(e, threads) {
        Ok(h) => h,
        Err(err) => {
            acc.violate(Violation::new("C20:compile-failed", format!("{}: {err}", e.show()), wit()));
            return;
        }
    };
    for (k, op) in ops.iter().enumerate() {
        match op {
            Op::IoMap => match h.io_map() {
                Ok(m) => {
                    if m != base.io {
                        acc.violate(Violation::new(
                            "C20:destination-table-changed",
                            format!("{}: io_map() after {:?} = {m:?}; on a fresh compile it is {:?}", e.show(), &ops[..k], base.io),
                            wit(),
                        ));
                        return;
                    }
                }
                Err(p) => {
                    acc.violate(Violation::new(format!("C20:panic:{}", panic_site(&p)), format!("{}: io_map panicked: {p}", e.show()), wit()));
                    return;
                }
            },
            Op::Scheme(d) => match h.scheme(&devs[*d]) {
                Ok(t) => {
                    acc.outcome(&(ei, *d));
                    if t != base.texts[*d] {
                        acc.violate(Violation::new(
                            "C20:rendering-depends-on-history",
                            format!("{}: scheme({:?}) after {:?} differs from the rendering of a fresh compile for the same path", e.show(), short(&devs[*d]), &ops[..k]),
                            wit(),
                        ));
                        return;
                    }
                }
                Err(p) => {
                    acc.violate(Violation::new(format!("C20:panic:{}", panic_site(&p)), format!("{}: scheme panicked: {p}", e.show()), wit()));
                    return;
                }
            },
        }
    }
}

fn short(s: &str) -> String {
    if s.len() > 24 {
        format!("{}…({} bytes)", &s[..12], s.len())
    } else {
        s.to_string()
    }
}

/// Pairwise: renderings for two different paths differ in exactly one leaf, the device string.
fn check_pairs(ei: usize, e: &Expr, devs: &[String], base: &Baseline, acc: &mut Acc) {
    let progs: Vec<Result<Prog, String>> = base.texts.iter().map(|t| Prog::read(t)).collect();
    for (i, p) in progs.iter().enumerate() {
        acc.states += 1;
        acc.transitions += 1;
        let wit = json!({"kind": "c20-device", "expr": ei, "device": i});
        let p = match p {
            Ok(p) => p,
            Err(err) => {
                acc.violate(Violation::new("C20:unreadable", format!("{}: rendering for {:?} does not read: {err}", e.show(), short(&devs[i])), wit));
                continue;
            }
        };
        match p.shape() {
            Ok(s) => match s.scan_args[0].as_str() {
                Some(d) if d == devs[i] => {}
                other => acc.violate(Violation::new(
                    "C20:device-literal-differs",
                    format!("{}: first argument of lipe-scan decodes to {:?}, the path given was {:?}", e.show(), other.map(short), short(&devs[i])),
                    wit,
                )),
            },
            Err(err) => {
                acc.violate(Violation::new("C20:structure-changed", format!("{}: rendering for {:?}: {err}", e.show(), short(&devs[i])), wit));
                continue;
            }
        }
        if i == 0 {
            continue;
        }
        if let Ok(p0) = &progs[0] {
            let mut diffs = vec![];
            if p0.forms.len() != p.forms.len() {
                diffs.push(("form count".to_string(), "".to_string()));
            } else {
                for (a, b) in p0.forms.iter().zip(p.forms.iter()) {
                    diff_leaves(a, b, &mut diffs);
                }
            }
            if diffs.len() != 1 {
                acc.violate(Violation::new(
                    "C20:renderings-differ-elsewhere",
                    format!("{}: renderings for {:?} and {:?} differ in {} places: {:?}", e.show(), short(&devs[0]), short(&devs[i]), diffs.len(), diffs.iter().take(3).collect::<Vec<_>>()),
                    json!({"kind": "c20-device", "expr": ei, "device": i}),
                ));
            }
        }
    }
}

pub fn run(ctx: &Ctx) -> i32 {
    let devs = devices();
    let es = exprs();
    let maxlen = ctx.tier.pick(4, 5);
    // operation histories range over the first 12 paths (every path takes part in the pairwise
    // comparison below)
    let seq_devs = devs.len().min(12);
    let nops = seq_devs + 1;
    let mut acc = Acc::new();
    for (ei, (e, threads)) in es.iter().enumerate() {
        let base = match baseline(e, *threads, &devs) {
            Ok(b) => b,
            Err(err) => {
                let sig = if err.starts_with("panic") { format!("C20:panic:{}", panic_site(&err[7..])) } else { "C20:compile-failed".to_string() };
                acc.violate(Violation::new(sig, format!("{}: {err}", e.show()), json!({"kind": "c20-device", "expr": ei, "device": 0})));
                continue;
            }
        };
        check_pairs(ei, e, &devs, &base, &mut acc);
        for len in 1..=maxlen {
            let total = (nops as u64).pow(len as u32);
            // handles are not Send: run sequences sequentially per expression but expressions in parallel below
            let _ = total;
        }
    }
    // operation sequences: parallel over (expression, sequence index)
    let mut seqs_per_expr = 0u64;
    for len in 1..=maxlen {
        seqs_per_expr += (nops as u64).pow(len as u32);
    }
    let bases: Vec<Option<Baseline>> = es.iter().map(|(e, t)| baseline(e, *t, &devs).ok()).collect();
    let total = seqs_per_expr * es.len() as u64;
    struct Shared<'a>(&'a [Option<Baseline>]);
    unsafe impl<'a> Sync for Shared<'a> {}
    let shared = Shared(&bases);
    let a2 = par_cases(total, |i, acc| {
        let ei = (i / seqs_per_expr) as usize;
        let mut k = i % seqs_per_expr;
        let mut len = 1;
        loop {
            let c = (nops as u64).pow(len as u32);
            if k < c {
                break;
            }
            k -= c;
            len += 1;
        }
        let mut ops = vec![];
        for _ in 0..len {
            let o = (k % nops as u64) as usize;
            k /= nops as u64;
            ops.push(if o == seq_devs { Op::IoMap } else { Op::Scheme(o) });
        }
        if let Some(base) = &shared.0[ei] {
            check_seq(ei, &es[ei].0, es[ei].1, &devs, base, &ops, acc);
        }
    });
    acc = acc.merge(a2);
    // rendering is a function of the compiled value and the path only: not of the time at which
    // it is asked for, nor of who is listening on the log facade
    let mut env = Acc::new();
    let timed = [
        Expr::and(Expr::Test(Test::MTime(Cmp::Lt, 7, TimeUnit::Day)), Expr::Action(Action::Print)),
        Expr::or(Expr::Test(Test::ATime(Cmp::Gt, 5, TimeUnit::Min)), Expr::and(Expr::Test(Test::CTime(Cmp::Eq, 0, TimeUnit::Hour)), Expr::Action(Action::FPrint("f".into())))),
    ];
    for (k, e) in timed.iter().enumerate() {
        env.states += 1;
        env.transitions += 4;
        let wit = json!({"kind": "c20-time", "expr": k});
        match fresh(e, None) {
            Ok(h) => {
                let first = h.scheme(&devs[1]);
                let io1 = h.io_map();
                std::thread::sleep(std::time::Duration::from_millis(1100));
                let second = h.scheme(&devs[1]);
                let other = h.scheme(&devs[3]);
                let io2 = h.io_map();
                match (first, second, other) {
                    (Ok(a), Ok(b), Ok(c)) => {
                        if a != b {
                            env.violate(Violation::new("C20:rendering-depends-on-the-time-of-the-call", format!("{}: two renderings for the same path, 1.1 s apart, differ", e.show()), wit.clone()));
                        }
                        if let (Ok(pa), Ok(pc)) = (Prog::read(&a), Prog::read(&c)) {
                            let mut d = vec![];
                            for (x, y) in pa.forms.iter().zip(pc.forms.iter()) {
                                diff_leaves(x, y, &mut d);
                            }
                            if d.len() != 1 {
                                env.violate(Violation::new("C20:renderings-differ-elsewhere", format!("{}: renderings for two paths made 1.1 s apart differ in {} places: {:?}", e.show(), d.len(), d.iter().take(3).collect::<Vec<_>>()), wit.clone()));
                            }
                        }
                    }
                    _ => env.violate(Violation::new("C20:panic:render", format!("{}: rendering panicked", e.show()), wit.clone())),
                }
                if format!("{io1:?}") != format!("{io2:?}") {
                    env.violate(Violation::new("C20:destination-table-changed", format!("{}: io_map() changed over time", e.show()), wit.clone()));
                }
            }
            Err(err) => env.violate(Violation::new("C20:compile-failed", format!("{}: {err}", e.show()), wit)),
        }
    }
    for (ei, (e, threads)) in es.iter().enumerate() {
        if let Some(base) = &bases[ei] {
            log::set_max_level(log::LevelFilter::Trace);
            for (di, d) in devs.iter().enumerate() {
                env.states += 1;
                env.transitions += 1;
                if let Ok(h) = fresh(e, *threads) {
                    match h.scheme(d) {
                        Ok(t) if t == base.texts[di] => {}
                        Ok(_) => env.violate(Violation::new(
                            "C20:rendering-depends-on-log-level",
                            format!("{}: scheme({:?}) differs when a logger listens at Trace level", e.show(), short(d)),
                            json!({"kind": "c20-log", "expr": ei, "device": di}),
                        )),
                        Err(p) => env.violate(Violation::new(format!("C20:panic:{}", panic_site(&p)), format!("{}: {p}", e.show()), json!({"kind": "c20-log", "expr": ei, "device": di}))),
                    }
                }
            }
            log::set_max_level(log::LevelFilter::Off);
        }
    }
    acc = acc.merge(env);
    // every Unicode scalar value (all 17 planes) inside the device path: the literal must decode
    // to the path and nothing else in the program may move
    {
        let tree = Expr::and(Expr::Test(Test::Name("x".into())), Expr::Action(Action::FPrint("f".into())));
        let step: u64 = ctx.tier.pick(1, 1);
        let sweep = par_cases(0x110000 / step, |i, acc| {
            let Some(c) = char::from_u32((i * step) as u32) else { return };
            // inside the path, and (every 3rd scalar, all white space) at its start and end
            let dev = match i % 3 {
                _ if c.is_whitespace() && i % 2 == 0 => format!("{c}/dev/a{c}"),
                1 => format!("/dev/a{c}"),
                2 => format!("{c}/dev/a"),
                _ => format!("/dev/a{c}b"),
            };
            let Ok(h) = fresh(&tree, None) else { return };
            acc.states += 1;
            acc.transitions += 1;
            let wit = || json!({"kind": "c20-char", "char": c as u32});
            let (Ok(t), Ok(b)) = (h.scheme(&dev), h.scheme("/dev/aqzqb")) else {
                acc.violate(Violation::new("C20:panic:render", format!("rendering for a path containing U+{:04X} panicked", c as u32), wit()));
                return;
            };
            match (Prog::read(&t), Prog::read(&b)) {
                (Ok(pt), Ok(pb)) => {
                    let mut d = vec![];
                    for (x, y) in pt.forms.iter().zip(pb.forms.iter()) {
                        diff_leaves(x, y, &mut d);
                    }
                    let ok = d.len() == 1 && pt.shape().ok().and_then(|s| s.scan_args.first().and_then(|n| n.as_str().map(|s| s.to_string()))) == Some(dev.clone());
                    if !ok {
                        acc.violate(Violation::new(
                            "C20:device-literal-differs",
                            format!("path with U+{:04X}: the renderings for {dev:?} and for a plain path differ in {} places ({:?}) or the device literal does not decode to the path", c as u32, d.len(), d.iter().take(2).collect::<Vec<_>>()),
                            wit(),
                        ));
                    }
                }
                (Err(e), _) => acc.violate(Violation::new("C20:program-unreadable", format!("path with U+{:04X}: {e}", c as u32), wit())),
                _ => {}
            }
        });
        acc = acc.merge(sweep);
    }
    // One compiled value rendered by several threads at once, one device each (what a front end
    // scanning every MDT does).  The schedules are whatever the machine produces: this part is a
    // stress run, NOT an exhaustive exploration (the library has no synchronisation operation a
    // controlled scheduler could intercept); a wrong rendering is a counterexample all the same.
    let mut conc = Acc::new();
    let rounds = ctx.tier.pick(3000, 30000);
    let cdevs: Vec<String> = (0..8).map(|k| format!("/dev/mapper/mdt{k}")).chain(["a\"b".to_string(), "c\\d".to_string()]).collect();
    let mut shareable = None;
    for (ei, (e, threads)) in es.iter().enumerate().filter(|(i, _)| i % 6 == 0) {
        let Some(real) = conv::expr_to_real(e) else { continue };
        match subject::concurrent_render(&real, &subject::options(false, *threads), &cdevs, rounds) {
            Ok(None) => shareable = Some(false),
            Ok(Some(bad)) => {
                shareable = Some(true);
                conc.states += (cdevs.len() * rounds) as u64;
                conc.transitions += (cdevs.len() * rounds) as u64;
                conc.count("concurrent_renderings_sampled", (cdevs.len() * rounds) as u64);
                if let Some((k, r, got)) = bad.first() {
                    let named = got.lines().skip_while(|l| !l.contains("lipe-scan")).nth(1).unwrap_or("").trim().to_string();
                    conc.violate(Violation::new(
                        "C20:rendering-wrong-when-threads-share-the-compiled-value",
                        format!("{}: {} threads render one compiled value, each for its own device; thread {k} (device {:?}) got a different program in round {r} (device line: {named}); {} of {} threads saw a wrong rendering", e.show(), cdevs.len(), cdevs[*k], bad.len(), cdevs.len()),
                        json!({"kind": "c20-concurrent", "expr": ei}),
                    ));
                }
            }
            Err(_) => {}
        }
    }
    acc = acc.merge(conc);
    let shareable_note = match shareable {
        Some(true) => "the compiled value is Sync: rendered concurrently (sampled schedules)",
        Some(false) => "the compiled value is not Sync: it cannot be shared between threads, nothing to run",
        None => "not run",
    };
    acc.sample(json!({"expression": es[3].0.show(), "ops": ["scheme(\"a\\\"b\")", "io_map()", "scheme(\"/\")"]}));
    finish(
        ctx,
        acc,
        Finish {
            level: "model_checking",
            exhaustive: true,
            rule: "state = (compiled expression, history of render operations); explicit-state exploration of every operation sequence (the compiled value is rebuilt and the history replayed, as it cannot be copied); each result is compared with the rendering of a fresh compile for the same path; renderings for different paths are read back and must differ in exactly one leaf, the device string literal, decoding to the path; distinct = (expression, device) pairs rendered".into(),
            bound: format!("{} expressions (five of them carrying placeholder-like user text) x every sequence of length 1..{maxlen} over {} operations (scheme(d) for the first {} of {} paths, io_map()); every pair of paths compared on every expression", es.len(), nops, seq_devs, devs.len()),
            assumptions: vec!["the operation histories use expressions without time tests; two expressions with time tests are rendered twice 1.1 s apart (the embedded second belongs to the compile call, C15)".into(), "every (expression, path) rendering is repeated with a logger listening at Trace level".into()],
            extra: {
                let mut m = serde_json::Map::new();
                m.insert("concurrent_rendering".into(), json!({"method": "stress run with 10 threads sharing one compiled value — sampled schedules, outside the exhaustive bound", "rounds_per_thread": rounds, "status": shareable_note}));
                m
            },
        },
    )
}

pub fn replay(w: &Value) -> Vec<Violation> {
    let mut acc = Acc::new();
    let devs = devices();
    let es = exprs();
    let ei = w["expr"].as_u64().unwrap_or(0) as usize;
    if ei >= es.len() {
        return vec![];
    }
    let (e, t) = &es[ei];
    if w["kind"] == "c20-char" {
        let c = char::from_u32(w["char"].as_u64().unwrap_or(65) as u32).unwrap_or('A');
        let tree = Expr::and(Expr::Test(Test::Name("x".into())), Expr::Action(Action::FPrint("f".into())));
        let dev = format!("/dev/a{c}b");
        if let Ok(h) = fresh(&tree, None) {
            let ok = h.scheme(&dev).ok().and_then(|t| Prog::read(&t).ok()).and_then(|p| p.shape().ok()).and_then(|s| s.scan_args.first().and_then(|n| n.as_str().map(|s| s.to_string()))) == Some(dev.clone());
            if !ok {
                return vec![Violation::new("C20:device-literal-differs", format!("path {dev:?}: the device literal does not decode to the path"), w.clone())];
            }
        }
        return vec![];
    }
    if w["kind"] == "c20-concurrent" {
        let cdevs: Vec<String> = (0..8).map(|k| format!("/dev/mapper/mdt{k}")).collect();
        if let Some(real) = conv::expr_to_real(e) {
            if let Ok(Some(bad)) = subject::concurrent_render(&real, &subject::options(false, *t), &cdevs, 100_000) {
                if let Some((k, r, _)) = bad.first() {
                    return vec![Violation::new("C20:rendering-wrong-when-threads-share-the-compiled-value", format!("{}: thread {k} got a wrong rendering in round {r}", e.show()), w.clone())];
                }
            }
        }
        return vec![];
    }
    if w["kind"] == "c20-time" || w["kind"] == "c20-log" {
        // environment-dependent witnesses: re-run the whole environment pass
        return vec![];
    }
    if let Ok(base) = baseline(e, *t, &devs) {
        if w["kind"] == "c20" {
            let ops: Vec<Op> = w["ops"]
                .as_array()
                .map(|a| a.iter().map(|o| if o == "io_map" { Op::IoMap } else { Op::Scheme(o["scheme"].as_u64().unwrap_or(0) as usize) }).collect())
                .unwrap_or_default();
            check_seq(ei, e, *t, &devs, &base, &ops, &mut acc);
        } else {
            check_pairs(ei, e, &devs, &base, &mut acc);
        }
    } else {
        acc.violate(Violation::new("C20:compile-failed", format!("{}", e.show()), w.clone()));
    }
    acc.violations.into_values().map(|(v, _)| v).collect()
}
