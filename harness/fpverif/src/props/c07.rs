//! C07 — numbers are exact or rejected; nothing wraps, truncates or saturates (DESIGN.md §4 C07).
use crate::prog::Prog;
use crate::props::c02;
use crate::props::corpus::numeric_inputs;
use crate::subject::{compile_render, parse_real, C, P};
use crate::textcmp::{compare, Verdict};
use crate::conv;
use serde_json::{json, Value};
use speclib::ast::*;
use speclib::report::{finish, panic_site, par_items, Acc, Ctx, Finish, Violation};
use speclib::scm::reader::Node;
use speclib::textspec::{self, Spec};

fn nums(n: &Node, out: &mut Vec<String>) {
    n.walk(&mut |x| {
        if let Some(v) = x.as_num() {
            out.push(v.to_string());
        }
    });
}

/// The integer constants of which the emitted comparison must contain at least one, as decimal
/// strings: the written count, or the count multiplied by its unit (either way of writing the
/// comparison carries the number unchanged; a wrapped, truncated or saturated value is neither).
fn expected_constants(t: &Test) -> Vec<String> {
    match t {
        Test::Uid(_, n) | Test::Gid(_, n) | Test::Inum(_, n) | Test::Links(_, n) | Test::MirrorCount(_, n) | Test::StripeCount(_, n) => vec![n.to_string()],
        Test::Size(_, n, u) => vec![(*n as u128 * u.bytes()).to_string(), n.to_string()],
        Test::ATime(_, n, u) | Test::CTime(_, n, u) | Test::MTime(_, n, u) => vec![n.to_string(), (*n as u128 * u.secs()).to_string()],
        _ => vec![],
    }
}

pub fn check(input: &String, acc: &mut Acc) {
    acc.states += 1;
    acc.transitions += 1;
    acc.validated += 1;
    let kw = input.split(' ').next().unwrap_or("?").to_string();
    let wit = || json!({"kind": "input", "input": input});
    match compare(input) {
        Verdict::Skip(r) => {
            acc.skip(r);
            return;
        }
        Verdict::AgreeReject(_, e) => {
            acc.count("rejected", 1);
            acc.outcome(&e);
            return;
        }
        Verdict::Panic(p) => {
            acc.violate(Violation::new(format!("C07:panic:{}", panic_site(&p)), format!("parse({input:?}) panicked: {p}"), wit()));
            return;
        }
        Verdict::AcceptsRejected { tree, .. } => {
            acc.violate(Violation::new(
                format!("C07:accepts-out-of-range:{kw}"),
                format!("parse({input:?}) = {} although the value is beyond the range of its field (or not a number)", tree.show()),
                wit(),
            ));
            return;
        }
        Verdict::RejectsAccepted { err, want } => {
            acc.violate(Violation::new(format!("C07:rejects-in-range:{kw}"), format!("parse({input:?}) failed ({err}); expected {}", want.show()), wit()));
            return;
        }
        Verdict::WrongTree { got, want } => {
            acc.violate(Violation::new(
                format!("C07:number-changed-in-tree:{kw}"),
                format!("parse({input:?}) = {}; the written value gives {}", got.show(), want.show()),
                wit(),
            ));
            return;
        }
        Verdict::WrongOptions { got, want } => {
            acc.violate(Violation::new(format!("C07:number-changed-in-options:{kw}"), format!("parse({input:?}) options {}; expected {want:?}", got.dbg), wit()));
            return;
        }
        Verdict::AgreeAccept(_) => acc.count("accepted", 1),
    }
    // accepted: the constants must survive compilation
    let (opts, tree) = match textspec::parse(input) {
        Spec::Accept { opts, tree, .. } => (opts, tree),
        _ => return,
    };
    let (o, e) = match parse_real(input) {
        P::Ok(o, e) => (o, e),
        _ => return,
    };
    let (text, _) = match compile_render(&e, &o, "/dev") {
        C::Ok(v) => v,
        C::Err(err) => {
            // an error value is an acceptable answer ("or the input is rejected with an error")
            acc.count("rejected_by_compile", 1);
            acc.outcome(&err);
            return;
        }
        C::Panic(p) => {
            acc.violate(Violation::new(format!("C07:compile-panic:{}", panic_site(&p)), format!("compile of {input:?} panicked: {p}"), wit()));
            return;
        }
    };
    let shape = match Prog::read(&text).and_then(|p| p.shape()) {
        Ok(s) => s,
        Err(err) => {
            acc.violate(Violation::new("C07:program-shape", format!("{input:?}: {err}"), wit()));
            return;
        }
    };
    if let Some(n) = opts.threads {
        let got = shape.scan_args[4].show();
        if got != n.to_string() {
            acc.violate(Violation::new("C07:thread-count-changed", format!("{input:?}: the scan call's thread argument is {got}, written value {n}"), wit()));
        }
        acc.outcome(&got);
        return;
    }
    if let Expr::Test(t) = &tree {
        let mut lits = vec![];
        nums(&shape.scan_args[2], &mut lits);
        let want = expected_constants(t);
        if !want.is_empty() && !want.iter().any(|c| lits.contains(c)) {
            acc.violate(Violation::new(
                format!("C07:constant-changed-in-program:{kw}"),
                format!("{input:?}: the emitted comparison has integer literals {lits:?}; neither the written count nor count x unit ({want:?}) is among them"),
                wit(),
            ));
            return;
        }
        acc.outcome(&lits);
        // behaviour on records around the constant
        let real = conv::expr(&e);
        if real == tree {
            let mut scratch = Acc::new();
            if let Err(m) = c02::validate(&tree, &e, &mut scratch) {
                acc.violate(Violation::new(format!("C07:comparison-wrong:{kw}"), format!("{input:?}: {}: {}", m.aspect, m.detail), wit()));
            }
        }
        if acc.samples.len() < 6 && input.len() > 20 {
            acc.sample(json!({"input": input, "literals": lits}));
        }
    }
}

/// Several numeric tests in one expression (coinciding values, equal products in different units,
/// lower and upper bounds in either order): the text-level reference fixes the tree, every
/// written constant (or its product with the unit) must be among the program's literals, and the
/// compiled comparison is executed on records around each constant.
fn check_multi(input: &String, acc: &mut Acc) {
    acc.states += 1;
    acc.transitions += 1;
    acc.validated += 1;
    let wit = || json!({"kind": "multi", "input": input});
    let tree = match compare(input) {
        Verdict::AgreeAccept(t) => t,
        Verdict::Skip(r) => {
            acc.skip(r);
            return;
        }
        Verdict::AgreeReject(..) => return,
        other => {
            acc.violate(Violation::new("C07:several-numeric-tests:parse", format!("parse({input:?}): {other:?}").chars().take(400).collect::<String>(), wit()));
            return;
        }
    };
    let (o, e) = match parse_real(input) {
        P::Ok(o, e) => (o, e),
        _ => return,
    };
    let (text, _) = match compile_render(&e, &o, "/dev") {
        C::Ok(v) => v,
        C::Err(_) => return,
        C::Panic(p) => {
            acc.violate(Violation::new(format!("C07:compile-panic:{}", panic_site(&p)), format!("compile of {input:?} panicked: {p}"), wit()));
            return;
        }
    };
    let Ok(shape) = Prog::read(&text).and_then(|p| p.shape()) else { return };
    let mut lits = vec![];
    nums(&shape.scan_args[2], &mut lits);
    let mut missing = None;
    tree.visit_leaves(&mut |l| {
        if let Expr::Test(t) = l {
            let want = expected_constants(t);
            if !want.is_empty() && !want.iter().any(|c| lits.contains(c)) {
                missing = Some((format!("{t:?}"), want));
            }
        }
    });
    if let Some((t, want)) = missing {
        acc.violate(Violation::new(
            "C07:constant-changed-in-program:several-numeric-tests",
            format!("{input:?}: the program's integer literals {lits:?} contain neither the written count nor count x unit ({want:?}) of {t}"),
            wit(),
        ));
        return;
    }
    acc.outcome(&lits);
    let mut scratch = Acc::new();
    if let Err(m) = c02::validate(&tree, &e, &mut scratch) {
        acc.violate(Violation::new("C07:comparison-wrong:several-numeric-tests", format!("{input:?}: {}: {}", m.aspect, m.detail), wit()));
    }
}

/// Constants that contain the digits of the current clock second, next to a time test, rendered
/// at once and again after the second has changed: the written numbers must come out unchanged
/// in every rendering.
fn clock_valued_constants(acc: &mut Acc) {
    let now = || std::time::SystemTime::now().duration_since(std::time::UNIX_EPOCH).map(|d| d.as_secs()).unwrap_or(0);
    for attempt in 0..4 {
        let t = now();
        let wants: Vec<String> = vec![t.to_string(), format!("{t}5"), format!("7{t}")];
        let input = format!("-mmin -5 -links {t} -size +{t}5c -o -atime +2 -links -7{t}");
        let wit = json!({"kind": "clock-valued", "input": input});
        let (o, e) = match parse_real(&input) {
            P::Ok(o, e) => (o, e),
            _ => return,
        };
        let h = match crate::subject::compile_handle(&e, &o) {
            C::Ok(h) => h,
            _ => return,
        };
        if now() != t && attempt < 3 {
            continue; // the second changed while compiling: take a fresh reading
        }
        acc.states += 1;
        for pause in [0u64, 1200, 1100] {
            std::thread::sleep(std::time::Duration::from_millis(pause));
            acc.transitions += 1;
            let Ok(text) = h.scheme("/dev") else { return };
            let Ok(shape) = Prog::read(&text).and_then(|p| p.shape()) else { return };
            let mut lits = vec![];
            nums(&shape.scan_args[2], &mut lits);
            for w in &wants {
                if !lits.contains(w) {
                    acc.violate(Violation::new(
                        "C07:constant-changed-in-program:value-resembles-the-clock",
                        format!("{input:?} rendered {} ms after compiling: the written constant {w} is not among the program's integer literals {lits:?}", pause),
                        wit.clone(),
                    ));
                    return;
                }
            }
        }
        acc.validated += 1;
        return;
    }
}

/// Every count 0..=1100 and a few dozen mid-range values (not boundaries of anything) under every
/// numeric keyword and unit.
fn dense_inputs(upto: u64) -> Vec<String> {
    use speclib::textspec::{ArgKind, VOCAB};
    let mut vals: Vec<u64> = (0..=upto).collect();
    vals.extend([1439, 1440, 1441, 3599, 3600, 3601, 9999, 10000, 43200, 65535, 65536, 65537, 86399, 86400, 86401, 99999, 100000, 604800, 1048575, 1048576, 1048577, 16777215, 16777216, 16777217, 123456789, 999999999]);
    let mut out = vec![];
    for kw in VOCAB {
        for k in kw.args {
            let units: &[&str] = match k {
                ArgKind::U32Cmp | ArgKind::U64Cmp | ArgKind::U32 => &[""],
                ArgKind::SizeCmp => &["", "c", "w", "k", "M", "G", "T"],
                ArgKind::TimeCmpMin | ArgKind::TimeCmpDay => &["", "s", "m", "h", "d"],
                _ => continue,
            };
            for n in &vals {
                for u in units {
                    let s = if *k == ArgKind::U32 { "" } else { ["", "+", "-"][(*n % 3) as usize] };
                    out.push(format!("{} {s}{n}{u}", kw.word));
                }
            }
        }
    }
    out
}

pub fn run(ctx: &Ctx) -> i32 {
    let mut inputs = numeric_inputs();
    inputs.extend(dense_inputs(ctx.tier.pick(1100, 20000)));
    // the thread count next to other options and inside an expression
    let threads: Vec<String> = inputs.iter().filter(|s| s.starts_with("-threads ")).cloned().collect();
    for t in &threads {
        for (pre, suf) in [("", " -name x -depth"), ("-depth ", " -name x"), ("-name x ", ""), ("-name x -depth ", " -print"), ("-threads 5 ", " -true -depth"), ("", " -name core -print -quit"), ("-name core -quit ", "")] {
            inputs.push(format!("{pre}{t}{suf}"));
        }
    }
    // quoted numeric arguments: text outside the number language can never be accepted
    for kw in ["-uid", "-links", "-size", "-mtime", "-amin", "-inum", "-stripe-count", "-threads"] {
        for a in ["5", "+5", "1.5", "0x10", "1e3", "7 days", "4 294", "5k", "5kk", " 5", "5 ", "+", "", "5-", "０５"] {
            if a.is_empty() {
                continue;
            }
            inputs.push(format!("{kw} '{a}'"));
            inputs.push(format!("{kw} \"{a}\" -print"));
        }
    }
    let multi: Vec<String> = crate::props::corpus::value_interaction_inputs().into_iter().filter(|s| s.matches(" -").count() >= 1 && !s.starts_with("-name") ).collect();
    let mut acc = par_items(&inputs, check).merge(par_items(&multi, check_multi));
    clock_valued_constants(&mut acc);
    let mut extra = serde_json::Map::new();
    extra.insert("inputs".into(), json!(inputs.len()));
    finish(
        ctx,
        acc,
        Finish {
            level: "model_checking",
            exhaustive: true,
            rule: "state = (numeric keyword, sign, leading zeros, value of the boundary lattice, unit letter); the real parser's verdict and tree are compared with arbitrary-precision arithmetic on the written digits; accepted inputs are compiled, the integer literals of the emitted comparison read back (they must contain the exact value, resp. value x unit and the unit), the scan call's thread argument read back, and the comparison executed on records around the constant; distinct = distinct literal sets and error texts".into(),
            bound: format!("every numeric keyword x {{'', +, -}} x {{no, 1, 3}} leading zeros x every unit letter x a lattice of 50+ values around 2^31, 2^32, 2^63, 2^64, 10^19, 10^20, 10^39 and 2^64/unit for every unit, the whole seconds / minutes / hours / days since the epoch and their neighbours, every count 0..1100 (thorough: 0..20000) and 26 mid-range values under every keyword and unit ({} inputs); {} expressions with two numeric tests on one attribute (bounds in both orders, equal values, equal products in different units) under and / or / list / negation; release build here, the debug build's results are tied to these by C17's pairwise comparison over the same lattice", inputs.len(), multi.len()),
            assumptions: vec!["field ranges: 32 bits for ids, inode, mirror/stripe counts and the thread count; 64 bits for link counts, sizes (after multiplication by the unit) and ages".into()],
            extra,
        },
    )
}

pub fn replay(w: &Value) -> Vec<Violation> {
    let mut acc = Acc::new();
    if w["kind"] == "clock-valued" {
        clock_valued_constants(&mut acc);
        return acc.violations.into_values().map(|(v, _)| v).collect();
    }
    if w["kind"] == "multi" {
        check_multi(&w["input"].as_str().unwrap_or("").to_string(), &mut acc);
        return acc.violations.into_values().map(|(v, _)| v).collect();
    }
    check(&w["input"].as_str().unwrap_or("").to_string(), &mut acc);
    acc.violations.into_values().map(|(v, _)| v).collect()
}
