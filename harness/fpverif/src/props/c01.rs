//! C01 — operator grammar: exact acceptance, unique tree (DESIGN.md §4 C01).
use crate::subject::{parse_spec, PS};
use serde_json::{json, Value};
use speclib::ast::{Action, Expr, Test};
use speclib::grammar::{self, Tok};
use speclib::report::{finish, panic_site, par_cases, Acc, Ctx, Finish, Tier, Violation};
#[allow(unused_imports)]
use serde_json::json as _json;
use speclib::words::{expr_words, ParenStyle};

const WORDS11: [&str; 11] = ["(", ")", "!", ",", "-a", "-and", "-o", "-or", "-true", "-name a,b", "-print"];
const WORDS9: [&str; 9] = ["(", ")", "!", ",", "-a", "-o", "-true", "-name a,b", "-print"];

fn tok(w: &str) -> Tok {
    match w {
        "(" => Tok::LParen,
        ")" => Tok::RParen,
        "!" => Tok::Not,
        "," => Tok::Comma,
        "-a" | "-and" => Tok::And,
        "-o" | "-or" => Tok::Or,
        "-true" => Tok::Prim(Expr::Test(Test::True)),
        "-name a,b" => Tok::Prim(Expr::Test(Test::Name("a,b".into()))),
        "-print" => Tok::Prim(Expr::Action(Action::Print)),
        other => panic!("C01 alphabet has no word {other:?}"),
    }
}

fn has_foreign_node(e: &Expr) -> bool {
    match e {
        Expr::Prec(_) | Expr::Global(_) | Expr::Positional => true,
        Expr::Not(a) => has_foreign_node(a),
        Expr::And(a, b) | Expr::Or(a, b) | Expr::List(a, b) => has_foreign_node(a) || has_foreign_node(b),
        _ => false,
    }
}

/// Does `tree` equal the reference tree of some proper non-empty prefix of the words?
fn is_prefix_result(toks: &[Tok], tree: &Expr) -> bool {
    (1..toks.len()).any(|k| grammar::parse(&toks[..k]).as_ref() == Some(tree))
}

pub fn check_words(words: &[&str], acc: &mut Acc) {
    let toks: Vec<Tok> = words.iter().map(|w| tok(w)).collect();
    let input = words.join(" ");
    let expect = grammar::parse(&toks);
    let got = parse_spec(&input);
    acc.states += 1;
    acc.transitions += 1;
    acc.validated += 1;
    let wit = || json!({"kind": "words", "words": words});
    match (&expect, &got) {
        (_, PS::Panic(p)) => acc.violate(Violation::new(
            format!("C01:panic:{}", panic_site(p)),
            format!("parse({input:?}) panicked: {p}"),
            wit(),
        )),
        (Some(want), PS::Ok(_, tree)) => {
            acc.count("accepted", 1);
            if words.len() <= 9 {
                acc.count(&format!("accepted_len_{}", words.len()), 1);
            }
            acc.outcome(tree);
            if has_foreign_node(tree) {
                acc.violate(Violation::new(
                    "C01:grouping-or-option-node-in-tree",
                    format!("parse({input:?}) returned a tree containing a Precedence/Global/Positional node: {}", tree.show()),
                    wit(),
                ));
            } else if tree != want {
                acc.violate(Violation::new(
                    "C01:wrong-tree",
                    format!("parse({input:?}) = {} but the grammar's unique tree is {}", tree.show(), want.show()),
                    wit(),
                ));
            }
            if words.len() <= 4 {
                acc.sample(json!({"input": input, "tree": tree.show()}));
            }
        }
        (None, PS::Err(_)) => {
            acc.count("rejected", 1);
        }
        (Some(want), PS::Err(e)) => acc.violate(Violation::new(
            "C01:rejects-sentence",
            format!("parse({input:?}) failed ({e}) but the input is a sentence with tree {}", want.show()),
            wit(),
        )),
        (None, PS::Ok(_, tree)) => {
            let sig = if is_prefix_result(&toks, tree) { "C01:accepts-non-sentence:prefix-returned" } else { "C01:accepts-non-sentence" };
            acc.violate(Violation::new(
                sig,
                format!("parse({input:?}) = {} but the input is not a sentence of the grammar", tree.show()),
                wit(),
            ))
        }
    }
}

fn seq_at<'a>(alpha: &'a [&'a str], len: usize, mut idx: u64, buf: &mut Vec<&'a str>) {
    buf.clear();
    for _ in 0..len {
        buf.push(alpha[(idx % alpha.len() as u64) as usize]);
        idx /= alpha.len() as u64;
    }
    buf.reverse();
}

fn sweep(alpha: &[&str], from: usize, to: usize) -> Acc {
    let mut total = Acc::new();
    for len in from..=to {
        let n = (alpha.len() as u64).pow(len as u32);
        let a = par_cases(n, |i, acc| {
            let mut buf = Vec::with_capacity(len);
            seq_at(alpha, len, i, &mut buf);
            check_words(&buf, acc);
        });
        total = total.merge(a);
    }
    total
}

/// Validate the reference recogniser itself: (i) every tree with <= max_leaves leaves printed
/// with minimal and with full parentheses reference-parses back to itself; (ii) the number of
/// accepted sequences per length equals the grammar's counting recurrence.
fn self_check(alpha: &[&str], max_len: usize, accepted_by_len: &[u64]) -> Result<(u64, u64), String> {
    let prims = alpha.iter().filter(|w| matches!(tok(w), Tok::Prim(_))).count() as u128;
    let ands = alpha.iter().filter(|w| tok(w) == Tok::And).count() as u128;
    let ors = alpha.iter().filter(|w| tok(w) == Tok::Or).count() as u128;
    let counts = grammar::count_sentences(max_len, prims, ands, ors);
    for len in 1..=max_len {
        if counts[len] != accepted_by_len[len] as u128 {
            return Err(format!(
                "reference recogniser accepted {} sequences of length {len}, the counting recurrence says {}",
                accepted_by_len[len], counts[len]
            ));
        }
    }
    // generative check
    let leaves = [Expr::Test(Test::True), Expr::Test(Test::Name("a,b".into())), Expr::Action(Action::Print)];
    let mut by_leaves: Vec<Vec<Expr>> = vec![vec![], leaves.to_vec()];
    let mut checked = 0u64;
    let max_leaves = 4;
    for n in 2..=max_leaves {
        let mut v = vec![];
        for k in 1..n {
            for a in &by_leaves[k] {
                for b in &by_leaves[n - k] {
                    v.push(Expr::and(a.clone(), b.clone()));
                    v.push(Expr::or(a.clone(), b.clone()));
                    v.push(Expr::list(a.clone(), b.clone()));
                }
            }
        }
        by_leaves.push(v);
    }
    let mut trees: Vec<Expr> = by_leaves.iter().flatten().cloned().collect();
    let nots: Vec<Expr> = by_leaves.iter().take(3).flatten().map(|e| Expr::not(e.clone())).collect();
    trees.extend(nots.iter().cloned());
    trees.extend(nots.iter().take(40).map(|e| Expr::and(e.clone(), Expr::not(e.clone()))));
    for t in &trees {
        for style in [ParenStyle::Minimal, ParenStyle::Full] {
            for andw in [None, Some("-a")] {
                let w = expr_words(t, style, andw, "-o").ok_or("tree without words")?;
                let toks: Vec<Tok> = w
                    .chunks(1)
                    .map(|c| c[0].as_str())
                    .fold((vec![], None::<String>), |(mut out, pending): (Vec<Tok>, Option<String>), word| {
                        if let Some(p) = pending {
                            out.push(tok(&format!("{p} {word}")));
                            (out, None)
                        } else if word == "-name" {
                            (out, Some(word.to_string()))
                        } else {
                            out.push(tok(word));
                            (out, None)
                        }
                    })
                    .0;
                let back = grammar::parse(&toks);
                if back.as_ref() != Some(t) {
                    return Err(format!("reference parser does not invert the printer on {} ({:?})", t.show(), w));
                }
                checked += 1;
            }
        }
    }
    Ok((checked, counts[1..=max_len].iter().sum::<u128>() as u64))
}

/// Sequences in which an option word stands where a primary may stand (find's grammar lists
/// options among the primaries): judged by the text-level reference, for which a leading run of
/// options is removed and any other option reads as -true.
/// Every primary of the vocabulary (with a member of its argument language), and primaries whose
/// argument word is itself an operator or keyword spelling, as the 8th word of a small alphabet.
fn special_primaries() -> Vec<String> {
    use speclib::textspec::{ArgKind as K, VOCAB};
    let mut v = vec![];
    for kw in VOCAB {
        let args: Vec<&str> = kw
            .args
            .iter()
            .map(|a| match a {
                K::Str => "x",
                K::U32Cmp | K::U64Cmp => "+5",
                K::SizeCmp => "-5k",
                K::TimeCmpMin | K::TimeCmpDay => "5",
                K::TypeList => "f,d",
                K::Perm => "/u+w",
                K::Format => "'%p\\n'",
                K::U32 => "3",
            })
            .collect();
        if kw.word == "-true" || kw.word == "-depth" {
            continue;
        }
        v.push(std::iter::once(kw.word).chain(args).collect::<Vec<_>>().join(" "));
    }
    for a in ["-o", "-a", "-or", "-and", "!", ",", "-print", "-depth", "-name", "-quit", "-not", "--", "-"] {
        v.push(format!("-name {a}"));
    }
    v.push("-fprint -o".into());
    v.push("nope".into());
    v.push("-path -a".into());
    v.push("-xattr-match -o -a".into());
    v
}

fn vocabulary_sequences(max_len: usize) -> Acc {
    let specials = special_primaries();
    let mut total = Acc::new();
    for sp in &specials {
        total = total.merge(sequences_with(&["(", ")", "!", ",", "-a", "-o", "-true", sp.as_str()], 7, max_len));
    }
    total.count("special_primaries", specials.len() as u64);
    total
}

fn option_sequences(max_len: usize) -> Acc {
    sequences_with(&["(", ")", "!", ",", "-a", "-and", "-o", "-or", "-true", "-name a,b", "-print", "-depth"], 11, max_len)
}

/// All sequences up to `max_len` over `alphabet` that contain the word at index `must`, judged by
/// the text-level reference.
fn sequences_with(alphabet: &[&str], must: usize, max_len: usize) -> Acc {
    let na = alphabet.len() as u64;
    let mut total = Acc::new();
    for len in 1..=max_len {
        let n = na.pow(len as u32);
        total = total.merge(par_cases(n, |mut idx, acc| {
            let mut w = Vec::with_capacity(len);
            let mut has_opt = false;
            for _ in 0..len {
                let k = (idx % na) as usize;
                has_opt |= k == must;
                w.push(alphabet[k]);
                idx /= na;
            }
            if !has_opt {
                return; // covered by the main sweep
            }
            w.reverse();
            let input = w.join(" ");
            acc.states += 1;
            acc.transitions += 1;
            acc.validated += 1;
            let wit = || json!({"kind": "option-words", "input": input});
            match crate::textcmp::compare(&input) {
                crate::textcmp::Verdict::AgreeAccept(t) => {
                    acc.count("accepted_with_option", 1);
                    acc.outcome(&t);
                }
                crate::textcmp::Verdict::AgreeReject(..) => acc.count("rejected_with_option", 1),
                crate::textcmp::Verdict::Skip(r) => acc.skip(r),
                crate::textcmp::Verdict::Panic(p) => acc.violate(Violation::new(format!("C01:panic:{}", panic_site(&p)), format!("parse({input:?}) panicked: {p}"), wit())),
                crate::textcmp::Verdict::AcceptsRejected { tree, .. } => acc.violate(Violation::new(
                    "C01:accepts-non-sentence:with-option-word",
                    format!("parse({input:?}) = {} but with options read as -true (leading run removed) the input is not a sentence", tree.show()),
                    wit(),
                )),
                crate::textcmp::Verdict::RejectsAccepted { err, want } => acc.violate(Violation::new(
                    "C01:rejects-sentence:with-option-word",
                    format!("parse({input:?}) failed ({err}); with options read as -true the tree is {}", want.show()),
                    wit(),
                )),
                crate::textcmp::Verdict::WrongTree { got, want } => acc.violate(Violation::new(
                    "C01:wrong-tree:with-option-word",
                    format!("parse({input:?}) = {}; expected {}", got.show(), want.show()),
                    wit(),
                )),
                crate::textcmp::Verdict::WrongOptions { .. } => {}
            }
        }));
    }
    total
}

/// Long sentences: n primaries joined by one operator spelling (or by juxtaposition), and the
/// same under k-fold negation / parentheses; the reference tree is the left fold.
/// The answer for a word sequence must not depend on what the thread parsed before: every ordered
/// pair of sequences of length 0..2 (and blank-only texts), the second parsed right after the
/// first on a fresh thread, against the answer on a fresh thread (which the sweep has compared
/// with the grammar).
fn histories() -> Acc {
    let mut inputs: Vec<String> = vec!["".into(), " ".into(), "\t".into()];
    let mut buf = vec![];
    for len in 1..=2usize {
        for i in 0..(WORDS11.len() as u64).pow(len as u32) {
            seq_at(&WORDS11, len, i, &mut buf);
            inputs.push(buf.join(" "));
        }
    }
    for s in ["-depth", "-depth -true", "-name a -o -name b -print", "( -true , -false ) -print", "-threads 3 -false"] {
        inputs.push(s.into());
    }
    let mut acc = Acc::new();
    let n = inputs.len() as u64;
    acc.states += n * n;
    acc.transitions += 2 * n * n;
    acc.validated += n * n;
    acc.count("history_pairs", n * n);
    for (i, j, after, alone) in crate::subject::parse_history_pairs(&inputs) {
        acc.violate(Violation::new(
            "C01:answer-depends-on-the-previous-parse",
            format!("parse({:?}) right after parse({:?}) on the same thread answers {after}; on a fresh thread it answers {alone}", inputs[j], inputs[i]),
            json!({"kind": "history", "first": inputs[i], "second": inputs[j]}),
        ));
    }
    acc
}

/// Blanks around the whole line decide nothing: every sequence of 0..2 words (operators,
/// primaries and the option words), alone and behind one or two leading options, with every
/// combination of leading and trailing blanks, must get the answer of the line without them -
/// acceptance, tree and options (a differential oracle: no expected value is written down; the
/// unpadded lines are judged against the grammar by the sweeps).
fn padded_lines() -> Acc {
    const W: [&str; 14] = ["(", ")", "!", ",", "-a", "-o", "-true", "-name a,b", "-print", "-depth", "-threads 2", "-uid 1", "-quit", "-false"];
    const PADS: [&str; 7] = ["", " ", "\n", "\t", "\r", "  ", " \n\t "];
    const LEADS: [&str; 4] = ["", "-depth", "-threads 3", "-depth -threads 4"];
    let mut lines: Vec<String> = vec![];
    let mut buf = vec![];
    for lead in LEADS {
        for len in 0..=2usize {
            for i in 0..(W.len() as u64).pow(len as u32) {
                seq_at(&W, len, i, &mut buf);
                let mut words: Vec<&str> = vec![];
                if !lead.is_empty() {
                    words.push(lead);
                }
                words.extend(buf.iter().copied());
                lines.push(words.join(" "));
            }
        }
    }
    speclib::report::par_items(&lines, |line, acc| {
        let base = parse_spec(line);
        if let PS::Panic(p) = &base {
            acc.violate(Violation::new(format!("C01:panic:{}", panic_site(p)), format!("parse({line:?}) panicked: {p}"), json!({"kind": "padded", "line": line, "before": "", "after": ""})));
            return;
        }
        for before in PADS {
            for after in PADS {
                if before.is_empty() && after.is_empty() {
                    continue;
                }
                acc.states += 1;
                acc.transitions += 1;
                acc.validated += 1;
                let input = format!("{before}{line}{after}");
                let got = parse_spec(&input);
                let same = match (&base, &got) {
                    (PS::Ok(o1, t1), PS::Ok(o2, t2)) => o1 == o2 && t1 == t2,
                    (PS::Err(_), PS::Err(_)) => true,
                    _ => false,
                };
                if same {
                    acc.count("padded_same", 1);
                    continue;
                }
                let show = |p: &PS| match p {
                    PS::Ok(o, t) => format!("Ok({}, {})", o.dbg, t.show()),
                    PS::Err(e) => format!("Err({e})"),
                    PS::Panic(p) => format!("Panic({p})"),
                };
                let sig = match (&base, &got) {
                    (_, PS::Panic(_)) => "C01:padded-line:panic",
                    (PS::Ok(..), PS::Err(_)) => "C01:padded-line:sentence-refused",
                    (PS::Err(_), PS::Ok(..)) => "C01:padded-line:non-sentence-accepted",
                    _ => "C01:padded-line:different-result",
                };
                acc.violate(Violation::new(
                    sig,
                    format!("parse({input:?}) answers {}; without the blanks around the line parse({line:?}) answers {}", show(&got), show(&base)),
                    json!({"kind": "padded", "line": line, "before": before, "after": after}),
                ));
            }
        }
    })
}

/// An operator word glued to the word after it (`-o-print`, `-a(`, `-and!`) is no operator: every
/// sentence of <= 4 words with one such junction must be refused.
fn glued_operators() -> Acc {
    let mut total = Acc::new();
    for len in 2..=4usize {
        let n = (WORDS11.len() as u64).pow(len as u32);
        total = total.merge(par_cases(n, |i, acc| {
            let mut buf = Vec::with_capacity(len);
            seq_at(&WORDS11, len, i, &mut buf);
            let toks: Vec<Tok> = buf.iter().map(|w| tok(w)).collect();
            if grammar::parse(&toks).is_none() {
                return;
            }
            for k in 0..len - 1 {
                if !matches!(buf[k], "-a" | "-and" | "-o" | "-or") || buf[k + 1] == ")" {
                    continue;
                }
                let mut words: Vec<String> = buf.iter().map(|w| w.to_string()).collect();
                let glued = format!("{}{}", words[k], words[k + 1]);
                words.splice(k..=k + 1, [glued]);
                let input = words.join(" ");
                acc.states += 1;
                acc.transitions += 1;
                acc.validated += 1;
                match parse_spec(&input) {
                    PS::Err(_) => acc.count("glued_operator_refused", 1),
                    PS::Ok(_, t) => acc.violate(Violation::new(
                        "C01:accepts-non-sentence:operator-glued-to-next-word",
                        format!("parse({input:?}) = {}: the word made of an operator and the following word is no operator", t.show()),
                        json!({"kind": "option-words", "input": input}),
                    )),
                    PS::Panic(p) => acc.violate(Violation::new(format!("C01:panic:{}", panic_site(&p)), format!("parse({input:?}) panicked: {p}"), json!({"kind": "option-words", "input": input}))),
                }
            }
        }));
    }
    total
}

fn long_sentences() -> Acc {
    let ns: Vec<usize> = (2..=340).chain([400, 511, 512, 513, 600]).collect();
    let joins: [Option<&str>; 6] = [None, Some("-a"), Some("-and"), Some("-o"), Some("-or"), Some(",")];
    let prims = ["-true", "-print", "-name a,b"];
    let mut cases: Vec<Vec<&str>> = vec![];
    for &n in &ns {
        for j in joins {
            for p in prims {
                if n * (p.len() + 1 + j.map_or(0, |j| j.len() + 1)) > 4096 {
                    continue; // the property's stated size bound
                }
                let mut w = vec![];
                for k in 0..n {
                    if k > 0 {
                        if let Some(j) = j {
                            w.push(j);
                        }
                    }
                    w.push(p);
                }
                cases.push(w);
            }
        }
    }
    // many parenthesised operands at one level (the count of parentheses grows, the nesting does not)
    for n in 2usize..=300 {
        for j in [Some("-o"), Some(","), None] {
            let mut w: Vec<&str> = vec![];
            for k in 0..n {
                if k > 0 {
                    if let Some(j) = j {
                        w.push(j);
                    }
                }
                w.extend(["(", "-true", ")"]);
            }
            if w.iter().map(|x| x.len() + 1).sum::<usize>() <= 4096 {
                cases.push(w);
            }
        }
        // alternating operators: -o binds looser than juxtaposition, ',' loosest
        let mut w: Vec<&str> = vec![];
        for k in 0..n {
            if k > 0 {
                w.push(["-o", "-a", ",", "-or"][k % 4]);
            }
            if k % 3 == 0 {
                w.push("!");
            }
            w.push("-print");
        }
        if w.iter().map(|x| x.len() + 1).sum::<usize>() <= 4096 {
            cases.push(w);
        }
    }
    for k in 1..=64usize {
        let mut w = vec!["!"; k];
        w.push("-true");
        cases.push(w);
        let mut w = vec!["("; k];
        w.extend(["-true", "-o", "-print"]);
        w.extend(vec![")"; k]);
        cases.push(w);
    }
    let mut acc = speclib::report::par_items(&cases, |w, acc| check_words(w, acc));
    // nesting beyond 64 levels, on a thread with a large stack (the grammar sets no limit)
    let deep = std::thread::Builder::new()
        .stack_size(512 << 20)
        .spawn(|| {
            let mut a = Acc::new();
            for k in [65usize, 66, 100, 127, 128, 129, 130, 160, 200, 256] {
                let mut w = vec!["("; k];
                w.extend(["-true", "-o", "-print"]);
                w.extend(vec![")"; k]);
                check_words(&w, &mut a);
                let mut w = vec!["!"; k];
                w.push("-print");
                check_words(&w, &mut a);
                let mut w: Vec<&str> = vec![];
                for _ in 0..k / 2 {
                    w.extend(["(", "!"]);
                }
                w.push("-true");
                w.extend(vec![")"; k / 2]);
                check_words(&w, &mut a);
            }
            // shallow sentences must still be accepted afterwards (no state carried between calls)
            check_words(&["(", "-true", ")"], &mut a);
            check_words(&["(", "(", "-print", ")", ")"], &mut a);
            a
        })
        .expect("spawn")
        .join();
    match deep {
        Ok(a) => acc = acc.merge(a),
        Err(_) => acc.violate(Violation::new("C01:panic:deep-nesting", "parsing 65..256 nested parentheses / negations did not return".to_string(), json!({"kind": "words", "words": ["(", "..."]}))),
    }
    acc
}

pub fn run(ctx: &Ctx) -> i32 {
    let n11 = ctx.tier.pick(6, 8);
    let mut acc = sweep(&WORDS11, 1, n11);
    let accepted_by_len: Vec<u64> =
        (0..=n11).map(|l| acc.counters.get(&format!("accepted_len_{l}")).copied().unwrap_or(0)).collect();
    // The counting check compares what the *reference* accepts; when the subject agrees with the
    // reference everywhere (no violations) the subject's accepted counts are the reference's.
    let mut extra = serde_json::Map::new();
    if acc.violations.is_empty() {
        match self_check(&WORDS11, n11, &accepted_by_len) {
            Ok((gen, sentences)) => {
                extra.insert("reference_generative_roundtrips".into(), json!(gen));
                extra.insert("reference_sentences_by_recurrence".into(), json!(sentences));
            }
            Err(e) => {
                println!("MACHINERY-ERROR C01 reference model failed its self-check: {e}");
                return 2;
            }
        }
    }
    acc = acc.merge(long_sentences());
    acc = acc.merge(histories());
    acc = acc.merge(glued_operators());
    acc = acc.merge(padded_lines());
    acc = acc.merge(option_sequences(ctx.tier.pick(5, 6)));
    acc = acc.merge(vocabulary_sequences(ctx.tier.pick(4, 5)));
    let mut bound = format!("all word sequences of length 1..{n11} over {} words; all sequences up to length {} containing the option word -depth, and all sequences up to length {} over (, ), !, ',', -a, -o, -true and one of ~70 special primaries (every vocabulary keyword with an argument, and primaries whose argument word is an operator or keyword spelling) (text-level reference); chains of 2..20 and of 31..600 primaries (every size in the range) under each operator spelling and juxtaposition, within 4 KiB; 1..64-fold negation and parentheses; every line of 0..2 words over 14 words (operators, primaries, option words) alone and behind 3 runs of leading options, under 48 combinations of leading and trailing blanks, against the same line without them", WORDS11.len(), ctx.tier.pick(5, 6), ctx.tier.pick(4, 5));
    if ctx.tier == Tier::Thorough {
        let a9 = sweep(&WORDS9, 9, 9);
        acc = acc.merge(a9);
        bound.push_str("; plus all sequences of length 9 over the 9-word alphabet (one spelling per operator)");
    }
    extra.insert("alphabet".into(), json!(WORDS11));
    finish(
        ctx,
        acc,
        Finish {
            level: "model_checking",
            exhaustive: true,
            rule: "state = word sequence (BFS by appending one of the alphabet's words); every state is parsed by the real parser and by the reference recogniser; distinct = distinct accepted trees".into(),
            bound,
            assumptions: vec![
                "reference grammar: list < or < and/juxtaposition < '!' < atom, left folds, parentheses transparent (validated each run by a counting recurrence and a print/parse round trip)".into(),
                "words are joined by single spaces (layout variations are C06's subject)".into(),
            ],
            extra,
        },
    )
}

pub fn replay(w: &Value) -> Vec<Violation> {
    if w["kind"] == "history" {
        let inputs = vec![w["first"].as_str().unwrap_or("").to_string(), w["second"].as_str().unwrap_or("").to_string()];
        return crate::subject::parse_history_pairs(&inputs)
            .into_iter()
            .map(|(i, j, after, alone)| Violation::new("C01:answer-depends-on-the-previous-parse", format!("parse({:?}) after parse({:?}): {after} vs {alone}", inputs[j], inputs[i]), w.clone()))
            .collect();
    }
    if w["kind"] == "padded" {
        let line = w["line"].as_str().unwrap_or("");
        let input = format!("{}{line}{}", w["before"].as_str().unwrap_or(""), w["after"].as_str().unwrap_or(""));
        let (base, got) = (parse_spec(line), parse_spec(&input));
        let same = match (&base, &got) {
            (PS::Ok(o1, t1), PS::Ok(o2, t2)) => o1 == o2 && t1 == t2,
            (PS::Err(_), PS::Err(_)) => true,
            _ => false,
        };
        return if same { vec![] } else { vec![Violation::new("C01:padded-line", format!("parse({input:?}) and parse({line:?}) answer differently"), w.clone())] };
    }
    if w["kind"] == "option-words" {
        // re-run the single input through the same comparison
        let input = w["input"].as_str().unwrap_or("").to_string();
        let mut out = vec![];
        if !matches!(crate::textcmp::compare(&input), crate::textcmp::Verdict::AgreeAccept(_) | crate::textcmp::Verdict::AgreeReject(..) | crate::textcmp::Verdict::Skip(_) | crate::textcmp::Verdict::WrongOptions { .. }) {
            out.push(Violation::new("C01:option-word-sequence", format!("parse({input:?}) disagrees with the reference"), w.clone()));
        }
        return out;
    }
    let words: Vec<String> = w["words"].as_array().map(|a| a.iter().filter_map(|x| x.as_str().map(String::from)).collect()).unwrap_or_default();
    let refs: Vec<&str> = words.iter().map(|s| s.as_str()).collect();
    let mut acc = Acc::new();
    check_words(&refs, &mut acc);
    acc.violations.into_values().map(|(v, _)| v).collect()
}
