//! C18 — argument errors name the offending primary and word (DESIGN.md §4 C18).
use crate::subject::{parse_spec, PS};
use serde_json::{json, Value};
use speclib::report::{finish, panic_site, par_items, Acc, Ctx, Finish, Violation};
use speclib::textspec::{ArgKind, VOCAB};

/// Argument words that are invalid from their first character for the given language.
fn bad_words(k: ArgKind) -> &'static [&'static str] {
    match k {
        ArgKind::U32Cmp | ArgKind::U64Cmp | ArgKind::U32 => &["x", "@5", "x5", ".5", "a\\(b", "\\!5"],
        ArgKind::SizeCmp | ArgKind::TimeCmpMin | ArgKind::TimeCmpDay => &["x", "k", "@1", "q9"],
        ArgKind::TypeList => &["x", "1", "z,f", "Q"],
        ArgKind::Perm => &["x", "8", "=", "z+x", "9644"],
        ArgKind::Format => &["%", "%z", "'%z'", "'%'"],
        ArgKind::Str => &[],
    }
}

const PREFIXES: [&str; 7] = ["", "-true ", "-true -print ", "( -true ) -o ", "-name café -o ", "-path '/data/日本/*' ", "-name 😀 -iname é "];
const SUFFIXES: [&str; 3] = ["", " -print", " -o -true"];

#[derive(Clone)]
struct Case {
    input: String,
    /// keyword the error must name (None for unknown-word cases)
    kw: Option<&'static str>,
    /// the word the error must quote ("" when missing)
    word: String,
    family: &'static str,
}

fn unquote(w: &str) -> String {
    let b = w.as_bytes();
    if b.len() >= 2 && (b[0] == b'\'' || b[0] == b'"') && b[b.len() - 1] == b[0] {
        w[1..w.len() - 1].to_string()
    } else {
        w.to_string()
    }
}

fn gen() -> Vec<Case> {
    let mut out = vec![];
    for kw in VOCAB {
        if kw.args.is_empty() {
            continue;
        }
        // leading valid arguments for multi-argument keywords
        for (ai, kind) in kw.args.iter().enumerate() {
            let lead: Vec<&str> = kw.args[..ai].iter().map(|_| "f").collect();
            let lead_s = if lead.is_empty() { String::new() } else { format!(" {}", lead.join(" ")) };
            for pre in PREFIXES {
                // missing argument: only meaningful at the end of the input or before ')'
                out.push(Case { input: format!("{pre}{}{lead_s}", kw.word), kw: Some(kw.word), word: String::new(), family: "missing-at-end" });
                out.push(Case {
                    input: format!("( {pre}{}{lead_s} )", kw.word),
                    kw: Some(kw.word),
                    word: String::new(),
                    family: "missing-before-paren",
                });
                for bad in bad_words(*kind) {
                    if !bad.starts_with('\'') {
                        // the invalid word right before a closing parenthesis, touching it or not
                        out.push(Case { input: format!("( {pre}{}{lead_s} {bad})", kw.word), kw: Some(kw.word), word: unquote(bad), family: "invalid-before-paren" });
                        out.push(Case { input: format!("( {pre}{}{lead_s} {bad} )", kw.word), kw: Some(kw.word), word: unquote(bad), family: "invalid-before-paren" });
                    }
                    for suf in SUFFIXES {
                        out.push(Case {
                            input: format!("{pre}{}{lead_s} {bad}{suf}", kw.word),
                            kw: Some(kw.word),
                            word: unquote(bad),
                            family: "invalid-argument",
                        });
                    }
                }
            }
        }
    }
    // long words and a long valid prefix: the message must still name the keyword and quote the
    // whole offending word
    for n in (2usize..=300).chain([511, 512, 513, 1000]) {
        let long = "x".repeat(n);
        out.push(Case { input: format!("-uid {long}"), kw: Some("-uid"), word: long.clone(), family: "long-invalid-word" });
        out.push(Case { input: format!("-true -size {long} -print"), kw: Some("-size"), word: long.clone(), family: "long-invalid-word" });
        out.push(Case { input: format!("-type {long}"), kw: Some("-type"), word: long.clone(), family: "long-invalid-word" });
        out.push(Case { input: format!("-perm {long}"), kw: Some("-perm"), word: long.clone(), family: "long-invalid-word" });
        out.push(Case { input: format!("-true {long}"), kw: None, word: long.clone(), family: "unknown-word" });
        out.push(Case { input: format!("-true -{long} -print"), kw: None, word: format!("-{long}"), family: "unknown-word" });
        let uni = format!("{}é{}", "x".repeat(n), "y".repeat(5));
        out.push(Case { input: format!("-uid {uni}"), kw: Some("-uid"), word: uni.clone(), family: "long-invalid-word" });
        out.push(Case { input: format!("-true {uni}"), kw: None, word: uni.clone(), family: "unknown-word" });
        if n <= 300 {
            let prefix = vec!["-name p"; n].join(" -o ");
            out.push(Case { input: format!("{prefix} -o -uid x"), kw: Some("-uid"), word: "x".into(), family: "invalid-argument" });
            out.push(Case { input: format!("{prefix} -o -mtime"), kw: Some("-mtime"), word: String::new(), family: "missing-at-end" });
            out.push(Case { input: format!("{prefix} foo"), kw: None, word: "foo".into(), family: "unknown-word" });
        }
    }
    // offending words that contain multi-character sequences a message formatter might treat
    // specially (terminal control sequences, format directives, markup, combining characters)
    for w in [
        "\u{1b}[31mroot\u{1b}[0m", "x\u{1b}[2Ky", "\u{1b}[H", "\u{1b}]0;t\u{7}z", "a\u{1b}b", "{}", "{0}", "{:?}", "%s", "%n", "$id", "`id`", "&amp;", "<b>x</b>", "e\u{301}", "\u{202e}abc", "a\u{200d}b", "\u{feff}x", "x\u{0}y", "a%20b", "\\x41", "\\n", "a\\", "~a", "x{y", "}x", "[x]", "😀", "\u{10000}0",
    ] {
        let w = w.to_string();
        out.push(Case { input: format!("-uid {w}"), kw: Some("-uid"), word: w.clone(), family: "invalid-argument" });
        out.push(Case { input: format!("-name a -links {w} -print"), kw: Some("-links"), word: w.clone(), family: "invalid-argument" });
        out.push(Case { input: format!("-mmin {w}"), kw: Some("-mmin"), word: w.clone(), family: "invalid-argument" });
        out.push(Case { input: format!("-type {w}"), kw: Some("-type"), word: w.clone(), family: "invalid-argument" });
        out.push(Case { input: format!("-threads {w}"), kw: Some("-threads"), word: w.clone(), family: "invalid-argument" });
        if !w.starts_with('-') {
            out.push(Case { input: format!("-true {w}"), kw: None, word: w.clone(), family: "unknown-word" });
            out.push(Case { input: format!("{w} -print"), kw: None, word: w.clone(), family: "unknown-word" });
        }
    }
    // a well-formed value of an option the target does not support: refused, and the message names
    // the option and quotes the value as written
    for kw in ["-maxdepth", "-mindepth"] {
        for v in ["3", "0", "12", "4294967295", "007"] {
            for (pre, suf) in [("", ""), ("", " -print"), ("-name a ", ""), ("-depth ", " -name b"), ("( -true ) ", "")] {
                out.push(Case { input: format!("{pre}{kw} {v}{suf}"), kw: Some(kw), word: v.to_string(), family: "unsupported-option-value" });
            }
        }
    }
    for w in ["-ok", "-okdir", "-owner", "-old", "-orx", "-all", "-andx", "-a1", "-o1", "-nothing", "-notx"] {
        out.push(Case { input: format!("-true {w}"), kw: None, word: w.to_string(), family: "unknown-word" });
        out.push(Case { input: format!("{w} rm"), kw: None, word: w.to_string(), family: "unknown-word" });
        out.push(Case { input: format!("-name a -o {w} -print"), kw: None, word: w.to_string(), family: "unknown-word" });
    }
    for w in ["foo", "-foo", "-bogus"] {
        out.push(Case { input: format!("( -true -o {w})"), kw: None, word: w.to_string(), family: "unknown-word" });
        out.push(Case { input: format!("({w})"), kw: None, word: w.to_string(), family: "unknown-word" });
        out.push(Case { input: format!("-true\t{w}\n"), kw: None, word: w.to_string(), family: "unknown-word" });
    }
    let bases = ["", "-true", "-true -o", "( -true", "! ", "-name x -a"];
    for w in ["foo", "-foo", "-namex", "-not", "x", "-printx", "--help", "foo\\(bar", "\\!x", "a\\b"] {
        for b in bases {
            for suf in SUFFIXES {
                let input = if b.is_empty() { format!("{w}{suf}") } else { format!("{b} {w}{suf}") };
                out.push(Case { input, kw: None, word: w.to_string(), family: "unknown-word" });
            }
        }
    }
    out
}

/// Segments of `text` enclosed in a pair of the same quote character.
fn quoted_segments(text: &str, q: char) -> Vec<String> {
    let parts: Vec<&str> = text.split(q).collect();
    parts.iter().enumerate().filter(|(i, _)| i % 2 == 1 && *i + 1 < parts.len()).map(|(_, s)| s.to_string()).collect()
}

fn check(c: &Case, acc: &mut Acc) {
    acc.states += 1;
    acc.transitions += 1;
    acc.validated += 1;
    acc.count(&format!("family:{}", c.family), 1);
    let wit = || json!({"kind": "c18", "input": c.input, "keyword": c.kw, "word": c.word, "family": c.family});
    let text = match parse_spec(&c.input) {
        PS::Err(t) => t,
        PS::Ok(_, t) => {
            acc.violate(Violation::new(
                format!("C18:{}:accepted", c.family),
                format!("parse({:?}) = {} although {:?} is not a valid argument/word", c.input, t.show(), c.word),
                wit(),
            ));
            return;
        }
        PS::Panic(p) => {
            acc.violate(Violation::new(format!("C18:panic:{}", panic_site(&p)), format!("parse({:?}) panicked: {p}", c.input), wit()));
            return;
        }
    };
    acc.outcome(&text);
    acc.sample(json!({"input": c.input, "error": text}));
    if text.trim().is_empty() {
        acc.violate(Violation::new(format!("C18:{}:empty-message", c.family), format!("parse({:?}) failed with an empty message", c.input), wit()));
        return;
    }
    let class = c.kw.and_then(|k| speclib::textspec::lookup(k)).map(|k| format!("{:?}", k.class).to_lowercase()).unwrap_or_else(|| "word".into());
    if let Some(kw) = c.kw {
        if !text.contains(kw) {
            acc.violate(Violation::new(
                format!("C18:{}:{}:keyword-not-named", c.family, class),
                format!("parse({:?}) failed with {text:?}, which does not name {kw}", c.input),
                wit(),
            ));
        }
    }
    let quoted = |w: &str| ['`', '\'', '"'].iter().any(|q| text.contains(&format!("{q}{w}{q}")));
    let quoted_ok = quoted(&c.word);
    // as-built lexer: a word that extends a keyword (`-namex`, `-printx`) is read as that
    // keyword followed by the remainder, and the error quotes only the remainder
    let keyword_prefixed = c.family == "unknown-word"
        && VOCAB.iter().any(|k| c.word.len() > k.word.len() && c.word.starts_with(k.word) && quoted(&c.word[k.word.len()..]));
    if !quoted_ok {
        acc.violate(Violation::new(
            if keyword_prefixed {
                "C18:unknown-word:keyword-prefixed-word-quoted-partially".to_string()
            } else {
                format!("C18:{}:{}:word-not-quoted", c.family, class)
            },
            format!("parse({:?}) failed with {text:?}, which does not quote the offending word {:?}", c.input, c.word),
            wit(),
        ));
    }
    // roles: if the message uses the words "argument" / "test" / "action" / "option" right before a
    // quoted item, the item after "argument" is the word and the item after the class noun is the
    // keyword, not the other way round (a message with another wording is not judged by this rule)
    if let Some(kw) = c.kw {
        if kw != c.word {
            let lower = text.to_lowercase();
            let after = |noun: &str, item: &str| ['`', '\'', '"'].iter().any(|q| lower.contains(&format!("{noun} {q}{}{q}", item.to_lowercase())));
            let word_as_keyword = !c.word.is_empty() && ["test", "action", "option", "primary", "predicate"].iter().any(|n| after(n, &c.word));
            if after("argument", kw) || word_as_keyword || (c.word.is_empty() && ["test", "action", "option"].iter().any(|n| after(n, ""))) {
                acc.violate(Violation::new(
                    format!("C18:{}:{}:keyword-and-word-exchanged", c.family, class),
                    format!("parse({:?}) failed with {text:?}, which presents the keyword {kw} as the argument (or the argument {:?} as the keyword)", c.input, c.word),
                    wit(),
                ));
            }
        }
    }
    for q in ['`', '"'] {
        for seg in quoted_segments(&text, q) {
            if !c.input.contains(&seg) {
                acc.violate(Violation::new(
                    format!("C18:{}:quotes-foreign-text", c.family),
                    format!("parse({:?}) failed with {text:?}, which quotes {seg:?}: not part of the input", c.input),
                    wit(),
                ));
            }
        }
    }
}

fn every_character() -> Acc {
    speclib::report::par_cases(0x110000, |cp, acc| {
        let c = match char::from_u32(cp as u32) {
            Some(c) if (c as u32) >= 0x80 && !c.is_control() && !c.is_whitespace() => c,
            _ => return,
        };
        for case in [
            Case { input: format!("-uid {c}"), kw: Some("-uid"), word: c.to_string(), family: "invalid-argument" },
            Case { input: format!("-true -size x{c}z -print"), kw: Some("-size"), word: format!("x{c}z"), family: "invalid-argument" },
            Case { input: format!("-true bogus{c}"), kw: None, word: format!("bogus{c}"), family: "unknown-word" },
            Case { input: format!("{c}"), kw: None, word: c.to_string(), family: "unknown-word" },
        ] {
            check(&case, acc);
        }
    })
}

pub fn run(ctx: &Ctx) -> i32 {
    let cases = gen();
    let mut acc = par_items(&cases, check).merge(every_character());
    // a message belongs to the call that failed: several threads parse their own invalid texts
    // at once; each must get the message it gets alone (sampled schedules)
    {
        let texts: Vec<String> = [
            "-name aaaaaaaaaaaaaaaaaaaaaaaaaaaaaaaaaaaaaaaaaaaaaaaaaaaaaaaaaaaaaaaaaaaaaaaaaa -o -uid oops",
            "-amin +5x",
            "-size +5x -print",
            "-type f,x",
            "-name ok -path alsook -iname fine -links 3",
            "-perm u+q",
            "-name b -o -threads many",
            "-true bogus",
            "-printf '%p %q'",
            "-mtime",
            "( -name a -o -gid 7z )",
            "-xattr-match k",
        ]
        .iter()
        .map(|s| s.to_string())
        .collect();
        let rounds = ctx.tier.pick(3000, 40000);
        acc.count("concurrent_parses_sampled", (texts.len() * rounds) as u64);
        for (k, r, want, got) in crate::subject::concurrent_calls(&texts, rounds) {
            acc.violate(Violation::new(
                "C18:message-depends-on-other-threads",
                format!("{} threads parse their own texts at once; thread {k} ({:?}) got in round {r}: {got:?}; alone it gets {want:?}", texts.len(), texts[k]),
                json!({"kind": "concurrent"}),
            ));
        }
    }
    finish(
        ctx,
        acc,
        Finish {
            level: "model_checking",
            exhaustive: true,
            rule: "state = (prefix, keyword, missing | invalid-from-first-character argument word, suffix) and (base, unknown word, suffix); the Display text of the returned error is inspected; distinct = distinct error texts".into(),
            bound: "every argument-taking keyword x every argument position x {missing at end, missing before ')', each invalid word of its language} x 4 prefixes x 3 suffixes; 7 unknown words x 6 bases x 3 suffixes; invalid and unknown words of 10..1000 characters; errors after a valid prefix of 10..300 primaries; every non-ASCII printable character of the Basic Multilingual Plane as / inside the offending word".into(),
            assumptions: vec!["a word counts as quoted when it stands between a pair of `, ' or \" characters".into()],
            extra: serde_json::Map::new(),
        },
    )
}

pub fn replay(w: &Value) -> Vec<Violation> {
    let mut acc = Acc::new();
    let kw: Option<&'static str> = w["keyword"].as_str().and_then(|k| speclib::textspec::lookup(k)).map(|k| k.word);
    let c = Case {
        input: w["input"].as_str().unwrap_or("").to_string(),
        kw,
        word: w["word"].as_str().unwrap_or("").to_string(),
        family: Box::leak(w["family"].as_str().unwrap_or("?").to_string().into_boxed_str()),
    };
    check(&c, &mut acc);
    acc.violations.into_values().map(|(v, _)| v).collect()
}
