//! C12 — unsupported constructs are refused, never silently dropped (DESIGN.md §4 C12).
use crate::conv;
use crate::prog::Prog;
use crate::props::c02;
use crate::subject::{self, compile_render, C};
use serde_json::{json, Value};
use speclib::ast::*;
use speclib::eval::inexpressible;
use speclib::report::{finish, panic_site, par_cases, par_items, Acc, Ctx, Finish, Violation};
use speclib::trees::{self, negation_variants};

fn all_fields() -> Vec<Field> {
    let mut v = c02::supported_fields();
    v.extend([Field::Depth, Field::DevNum, Field::FsType, Field::SymTarget, Field::PermSymbolic, Field::TypeSymlink, Field::SecContext]);
    v
}

/// Every construct of the vocabulary as a one-leaf tree.
fn all_constructs() -> Vec<Expr> {
    let mut v = c02::full_menu();
    let s = || "x".to_string();
    for t in [
        Test::ANewer(s()),
        Test::CNewer(s()),
        Test::FsType(s()),
        Test::Group(s()),
        Test::ILName(s()),
        Test::IRegex(s()),
        Test::LName(s()),
        Test::MNewer(s()),
        Test::NoGroup,
        Test::NoUser,
        Test::Regex(s()),
        Test::Samefile(s()),
        Test::User(s()),
    ] {
        v.push(Expr::Test(t));
    }
    for a in [Action::Ls, Action::Fls(s()), Action::Prune] {
        v.push(Expr::Action(a));
    }
    // destinations a find implementation may single out must not hide an unsupported construct
    for d in ["/dev/null", "/dev/stdout", "/dev/stderr", "-"] {
        v.push(Expr::Action(Action::Fls(d.into())));
        for f in [Field::Depth, Field::TypeSymlink, Field::PermSymbolic] {
            v.push(Expr::Action(Action::FPrintf(d.into(), vec![Fmt::Field(f), Fmt::Special(Special::Newline)])));
        }
        v.push(Expr::Action(Action::FPrintf(d.into(), vec![Fmt::Field(Field::Name), Fmt::Special(Special::Newline)])));
        v.push(Expr::Action(Action::FPrint(d.into())));
    }
    let nl = Fmt::Special(Special::Newline);
    for f in all_fields() {
        v.push(Expr::Action(Action::Printf(vec![Fmt::Field(f.clone()), nl.clone()])));
        v.push(Expr::Action(Action::FPrintf("f".into(), vec![Fmt::Lit("a".into()), Fmt::Field(f), nl.clone()])));
    }
    v.push(Expr::Positional);
    for g in [Global::Depth, Global::MaxDepth(3), Global::MinDepth(1), Global::Threads(4)] {
        v.push(Expr::Global(g));
    }
    v
}

fn supported_reps() -> Vec<Expr> {
    vec![
        Expr::Test(Test::Uid(Cmp::Eq, 1)),
        Expr::Action(Action::Print),
        Expr::Action(Action::Printf(vec![Fmt::Field(Field::Name), Fmt::Special(Special::Newline)])),
    ]
}

fn unsupported_reps() -> Vec<Expr> {
    let nl = Fmt::Special(Special::Newline);
    vec![
        Expr::Test(Test::Regex("x".into())),
        Expr::Test(Test::NoUser),
        Expr::Action(Action::Prune),
        Expr::Action(Action::Fls("f".into())),
        Expr::Action(Action::Printf(vec![Fmt::Field(Field::Depth), nl.clone()])),
        Expr::Action(Action::FPrintf("f".into(), vec![Fmt::Field(Field::PermSymbolic), nl])),
        Expr::Positional,
        Expr::Global(Global::Depth),
    ]
}

/// Names under which the subject's own Debug rendering shows each inexpressible construct.
fn real_names(tree: &Expr) -> Vec<String> {
    let mut out = vec![];
    tree.visit_leaves(&mut |l| {
        let single = inexpressible(l);
        if single.is_empty() {
            return;
        }
        match l {
            Expr::Action(Action::Printf(f)) | Expr::Action(Action::FPrintf(_, f)) => {
                for el in f {
                    if let Fmt::Field(x) = el {
                        if speclib::eval::field_inexpressible(x) {
                            let real = conv::fmt_to_real(&[Fmt::Field(x.clone())]);
                            if let lipe_find_parser::ast::FormatElement::Field(rf) = &real[0] {
                                out.push(ident(&format!("{rf:?}")));
                            }
                            out.push(speclib::words::field_text(x));
                        }
                    }
                }
            }
            _ => {
                if let Some(r) = conv::expr_to_real(l) {
                    let d = format!("{r:?}");
                    // Debug of Expression wraps leaves as Test(..)/Action(..)/Global(..)/Positional(..)
                    let inner = d.splitn(2, '(').nth(1).unwrap_or(&d);
                    out.push(ident(inner));
                }
                // the command-line keyword names the construct just as well
                let kw = match l {
                    Expr::Test(t) => speclib::words::test_words(t),
                    Expr::Action(a) => speclib::words::action_words(a),
                    Expr::Global(g) => Some(speclib::words::global_words(g)),
                    _ => None,
                };
                if let Some(w) = kw.and_then(|w| w.into_iter().next()) {
                    out.push(w);
                }
            }
        }
    });
    out
}

fn ident(s: &str) -> String {
    s.chars().take_while(|c| c.is_alphanumeric() || *c == '_').collect()
}

fn has_clear(e: &Expr) -> bool {
    let mut f = false;
    e.visit_leaves(&mut |l| {
        if let Expr::Action(Action::Printf(x)) | Expr::Action(Action::FPrintf(_, x)) = l {
            f |= x.iter().any(|e| matches!(e, Fmt::Special(Special::Clear)));
        }
    });
    f
}

pub fn check(tree: &Expr, acc: &mut Acc) {
    if tree.depth() > 20 {
        speclib::report::enter_case(|| format!("tree of depth {} with {} leaves: {}…", tree.depth(), tree.leaves(), tree.show().chars().take(120).collect::<String>()));
    }
    acc.states += 1;
    acc.transitions += 1;
    acc.validated += 1;
    let wit = || json!({"kind": "tree", "tree": tree});
    let real = match conv::expr_to_real(tree) {
        Some(r) => r,
        None => {
            acc.skip("not representable");
            return;
        }
    };
    let bad = inexpressible(tree);
    // neither -depth nor a thread count changes what the target can express
    let base_refused = matches!(compile_render(&real, &subject::options(false, None), "/dev"), C::Err(_));
    for (d, th) in [(true, None), (true, Some(1u32)), (false, Some(4))] {
        let alt = compile_render(&real, &subject::options(d, th), "/dev");
        let refused = matches!(alt, C::Err(_));
        // (a format with \\c may be refused or not — but then under every option alike)
        let expected_refused = if has_clear(tree) && bad.is_empty() { base_refused } else { !bad.is_empty() };
        if !matches!(alt, C::Panic(_)) && refused != expected_refused {
            acc.violate(Violation::new(
                if refused { "C12:supported-expression-refused:with-run-options".to_string() } else { format!("C12:inexpressible-construct-compiled:{}:with-run-options", bad.first().map(|s| s.as_str()).unwrap_or("answer-differs-from-the-default-options")) },
                format!("compile({}) with options depth={d} threads={th:?} {} although the tree {}", tree.show(), if refused { "fails" } else { "succeeds" }, if bad.is_empty() { "is expressible".to_string() } else { format!("contains {bad:?}") }),
                json!({"kind": "tree", "tree": tree, "depth": d, "threads": th}),
            ));
            return;
        }
    }
    let res = compile_render(&real, &subject::options(false, None), "/dev");
    // the answer must not depend on having been asked before (same thread, same tree)
    let again = compile_render(&real, &subject::options(false, None), "/dev");
    let same = match (&res, &again) {
        // the second embedded in a time test may tick between the two calls
        (C::Ok(a), C::Ok(b)) => a.1 == b.1 && crate::props::children::normalise_clock(&a.0) == crate::props::children::normalise_clock(&b.0),
        (C::Err(a), C::Err(b)) => a == b,
        (C::Panic(_), C::Panic(_)) => true,
        _ => false,
    };
    if !same {
        let show = |c: &C<(String, Option<crate::subject::IoMap>)>| match c {
            C::Ok((t, _)) => format!("Ok: {}", t.lines().find(|l| l.contains("(lambda () (")).unwrap_or("").trim()),
            C::Err(e) => format!("Err: {e}"),
            C::Panic(p) => format!("panic: {p}"),
        };
        acc.violate(Violation::new(
            "C12:second-compile-answers-differently",
            format!("compile({}) answered {} the first time and {} the second time on the same thread", tree.show(), show(&res), show(&again)),
            wit(),
        ));
        return;
    }
    match (&res, bad.is_empty()) {
        (C::Panic(p), _) => acc.violate(Violation::new(
            format!("C12:panic:{}", panic_site(p)),
            format!("compile({}) panicked: {p}", tree.show()),
            wit(),
        )),
        (C::Ok((text, _)), true) => {
            acc.count("compiled", 1);
            // nothing left as a placeholder: the program must read and contain no unbound form
            match Prog::read(text).and_then(|p| p.shape().map(|_| p)) {
                Ok(p) => {
                    let sc = crate::scope::analyse(&p.forms);
                    if let Some(pr) = sc.problems.iter().find(|p| p.contains("neither bound")) {
                        acc.violate(Violation::new("C12:placeholder-left-in-program", format!("{}: {pr}", tree.show()), wit()));
                    }
                }
                Err(e) => acc.violate(Violation::new("C12:program-unreadable", format!("{}: {e}", tree.show()), wit())),
            }
            acc.outcome("ok");
        }
        (C::Ok((text, _)), false) => {
            acc.violate(Violation::new(
                format!("C12:inexpressible-construct-compiled:{}", bad[0]),
                format!("compile({}) succeeded although the target cannot express {bad:?}; body: {}", tree.show(), text.lines().find(|l| l.contains("(lambda () (")).unwrap_or("").trim()),
                wit(),
            ));
        }
        (C::Err(e), true) => {
            if has_clear(tree) {
                acc.skip("format with \\c refused (the table allows either)");
            } else {
                acc.violate(Violation::new(
                    "C12:supported-expression-refused",
                    format!("compile({}) failed ({e}) although every construct is expressible", tree.show()),
                    wit(),
                ));
            }
        }
        (C::Err(e), false) => {
            acc.count("refused", 1);
            acc.outcome(e);
            let names = real_names(tree);
            let el = e.to_lowercase();
            if e.trim().is_empty() || !names.iter().any(|n| !n.is_empty() && el.contains(&n.to_lowercase())) {
                acc.violate(Violation::new(
                    "C12:error-does-not-name-the-construct",
                    format!("compile({}) failed with {e:?}, which names none of {names:?}", tree.show()),
                    wit(),
                ));
            }
            if tree.leaves() == 1 {
                acc.sample(json!({"tree": tree.show(), "error": e}));
            }
        }
    }
}

pub fn run(ctx: &Ctx) -> i32 {
    let singles = all_constructs();
    let mut acc = par_items(&singles, |e, acc| {
        check(e, acc);
        check(&Expr::not(e.clone()), acc);
        check(&Expr::prec(e.clone()), acc);
    });
    let mut menu = supported_reps();
    menu.extend(unsupported_reps());
    menu.push(Expr::Test(Test::False));
    menu.push(Expr::Test(Test::True));
    let maxn = ctx.tier.pick(4, 4);
    for n in 2..=maxn {
        let shapes = trees::shapes(n);
        let total = trees::count(n, menu.len() as u64);
        acc = acc.merge(par_cases(total, |i, acc| {
            let t = trees::nth(&shapes, n, &menu, i);
            if n <= ctx.tier.pick(2, 3) {
                for v in negation_variants(&t) {
                    check(&v, acc);
                }
            } else {
                check(&t, acc);
            }
        }));
    }
    // long chains: n operands under one operator (and under k negations), one unsupported
    // construct at the front, in the middle, near each multiple of 64, or at the very end
    let sup = supported_reps();
    let uns = unsupported_reps();
    let mut longs: Vec<Expr> = vec![];
    for n in 3usize..=300 {
        for (oi, op) in [trees::Op::And, trees::Op::Or, trees::Op::List].into_iter().enumerate() {
            for pos in [0usize, 1, n / 2, 63.min(n - 1), 64.min(n - 1), n - 2, n - 1] {
                let u = uns[(n + pos + oi) % uns.len()].clone();
                let mut it = (0..n).map(|k| if k == pos { u.clone() } else { sup[k % sup.len()].clone() });
                let mut acc_e = it.next().unwrap();
                for e in it {
                    acc_e = trees::bin(op, acc_e, e);
                }
                longs.push(acc_e);
            }
            // all supported: must compile
            let mut it = (0..n).map(|k| sup[k % sup.len()].clone());
            let mut acc_e = it.next().unwrap();
            for e in it {
                acc_e = trees::bin(op, acc_e, e);
            }
            longs.push(acc_e);
        }
        let mut deep = uns[n % uns.len()].clone();
        for _ in 0..n {
            deep = Expr::not(deep);
        }
        longs.push(deep);
    }
    acc = acc.merge(par_items(&longs, |e, acc| check(e, acc)));
    // the same through the command line: every keyword whose construct the target cannot express,
    // written as text, must parse to that construct and then be refused (a keyword mapped to a
    // neighbouring supported node would compile)
    {
        use speclib::textspec::{Spec, VOCAB};
        let mut texts: Vec<String> = vec![];
        for kw in VOCAB {
            let args: Vec<&str> = kw.args.iter().map(|_| "x").collect();
            let core = std::iter::once(kw.word).chain(args).collect::<Vec<_>>().join(" ");
            for (pre, suf) in [("", ""), ("-name a ", ""), ("", " -print"), ("-name a -o ", " -print0"), ("! ", ""), ("( ", " ) -fprint f")] {
                texts.push(format!("{pre}{core}{suf}"));
            }
        }
        for d in "abcdDfFgGhHiklmMnpPsStuUyYZ".chars() {
            texts.push(format!("-printf '%{d}\\n'"));
            texts.push(format!("-name a -fprintf f '%{d}'"));
        }
        // directives that do not exist are not constructs to be compiled into something else
        for f in ["%q", "%5s", "%#m", "%{no-such}", "100%", "%", "%-p", "%e", "%j"] {
            for text in [format!("-printf '{f}'"), format!("-name a -fprintf f 'x{f}\\n'")] {
                if let (Spec::Reject(_), crate::subject::P::Ok(o, e)) = (speclib::textspec::parse(&text), crate::subject::parse_real(&text)) {
                    if let C::Ok(_) = compile_render(&e, &o, "/dev") {
                        acc.violate(Violation::new(
                            "C12:invalid-directive-compiled:from-text",
                            format!("{text:?} holds a directive the format language does not have, yet it parses to {} and compiles", conv::expr(&e).show()),
                            json!({"kind": "text-invalid", "input": text}),
                        ));
                    }
                }
            }
        }
        // the \\c escape (stop printing here): refused, or compiled with that meaning — never
        // compiled into something else (a backslash and a letter)
        let clear_texts = ["-printf 'a\\cb'", "-printf '%p\\c'", "-name x -fprintf f '%p\\c tail\\n'", "-printf '\\c'"];
        for text in clear_texts {
            if let (Spec::Accept { tree, .. }, crate::subject::P::Ok(o, e)) = (speclib::textspec::parse(text), crate::subject::parse_real(text)) {
                if let C::Ok(_) = compile_render(&e, &o, "/dev") {
                    let mut scratch = Acc::new();
                    if let Err(m) = crate::props::c02::validate(&tree, &e, &mut scratch) {
                        acc.violate(Violation::new(
                            "C12:inexpressible-construct-compiled:Clear:from-text",
                            format!("{text:?} compiles, but not with the meaning of \\c: {}: {}", m.aspect, m.detail),
                            json!({"kind": "text-clear", "input": text}),
                        ));
                    }
                }
            }
        }
        // the depth limits, with every kind of count (the smallest, zero-padded, the largest) and in
        // every place an option may stand: the scanner cannot limit the depth, so the line is
        // refused or the limit is carried in the returned options - a program for the whole tree
        // with the limit dropped is never the answer.  (-mindepth 0 limits nothing: not judged.)
        {
            let mut d = Acc::new();
            for (opt, name) in [("-maxdepth", "MaxDepth"), ("-mindepth", "MinDepth")] {
                for n in ["0", "00", "1", "01", "2", "7", "10", "255", "65536", "4294967295"] {
                    if opt == "-mindepth" && n.trim_start_matches('0').is_empty() {
                        continue;
                    }
                    for template in ["{o} -name a -print", "-name a {o} -print", "-name a -print {o}", "{o}", "-depth {o} -name a", "{o} -depth", "( -name a {o} ) -print", "! {o}", "-name a -o {o}", "-name a , {o}", "{o} -threads 2 -print0", "-fprint f {o}"] {
                        let text = template.replace("{o}", &format!("{opt} {n}"));
                        d.states += 1;
                        d.transitions += 1;
                        if let crate::subject::P::Ok(o, e) = crate::subject::parse_real(&text) {
                            d.validated += 1;
                            let shown = format!("{o:?}").to_lowercase().replace('_', "");
                            if shown.contains("maxdepth") || shown.contains("mindepth") {
                                continue; // the options returned have a place for the limit (C13 judges its value)
                            }
                            if let C::Ok(_) = compile_render(&e, &o, "/dev") {
                                d.violate(Violation::new(
                                    format!("C12:inexpressible-construct-compiled:{name}:from-text"),
                                    format!("{text:?} parses to {} with options {o:?} and compiles: the depth limit is dropped", conv::expr(&e).show()),
                                    json!({"kind": "text-depth", "input": text}),
                                ));
                            }
                        }
                    }
                }
            }
            acc = acc.merge(d);
        }
        let mut t = Acc::new();
        for text in &texts {
            let Spec::Accept { tree, .. } = speclib::textspec::parse(text) else { continue };
            let bad = inexpressible(&tree);
            t.states += 1;
            t.transitions += 1;
            if bad.is_empty() {
                // every construct is expressible: the text must parse and compile
                if tree.has_action() || true {
                    match crate::subject::parse_real(text) {
                        crate::subject::P::Ok(o, e) => {
                            if let C::Err(err) = compile_render(&e, &o, "/dev") {
                                if !has_clear(&tree) {
                                    t.violate(Violation::new("C12:supported-expression-refused:from-text", format!("{text:?} ({}) is refused by compile: {err}", tree.show()), json!({"kind": "text", "input": text})));
                                }
                            }
                        }
                        crate::subject::P::Err(err) => {
                            if !matches!(speclib::textspec::parse(text), Spec::Accept { may_reject: true, .. }) {
                                t.violate(Violation::new("C12:supported-expression-refused:from-text", format!("{text:?} ({}) is refused by the parser: {err}", tree.show()), json!({"kind": "text", "input": text})));
                            }
                        }
                        crate::subject::P::Panic(_) => {}
                    }
                }
                continue;
            }
            if let crate::subject::P::Ok(o, e) = crate::subject::parse_real(text) {
                t.validated += 1;
                if let C::Ok(_) = compile_render(&e, &o, "/dev") {
                    t.violate(Violation::new(
                        format!("C12:inexpressible-construct-compiled:{}:from-text", bad[0]),
                        format!("{text:?} (which contains {bad:?}) parses to {} and compiles", conv::expr(&e).show()),
                        json!({"kind": "text", "input": text}),
                    ));
                }
            }
        }
        acc = acc.merge(t);
    }
    // an unsupported test whose argument equals the argument of a supported test next to it
    // (tables keyed by the argument text), in plain and in framed programs, both orders
    {
        let mut same = vec![];
        for x in ["core", "a*", "x", "A", "f"] {
            let s = x.to_string();
            let uns: Vec<Test> = vec![Test::Regex(s.clone()), Test::IRegex(s.clone()), Test::LName(s.clone()), Test::ILName(s.clone()), Test::User(s.clone()), Test::Group(s.clone()), Test::FsType(s.clone()), Test::Samefile(s.clone()), Test::ANewer(s.clone())];
            let sup: Vec<Test> = vec![Test::Name(s.clone()), Test::IName(s.clone()), Test::Path(s.clone()), Test::IPath(s.clone()), Test::Pool(s.clone()), Test::Xattr(s.clone())];
            for u in &uns {
                for p in &sup {
                    for tail in [Action::Print, Action::Print0, Action::FPrint(s.clone())] {
                        let (u, p) = (Expr::Test(u.clone()), Expr::Test(p.clone()));
                        same.push(Expr::and(Expr::or(p.clone(), u.clone()), Expr::Action(tail.clone())));
                        same.push(Expr::and(Expr::or(u.clone(), p.clone()), Expr::Action(tail.clone())));
                        same.push(Expr::and(Expr::and(p, Expr::not(u)), Expr::Action(tail)));
                    }
                }
            }
        }
        acc = acc.merge(par_items(&same, |e, acc| check(e, acc)));
    }
    // a refusal belongs to the call that asked: several threads compile supported and unsupported
    // expressions at once (sampled schedules)
    {
        let texts: Vec<String> = ["-nouser -a -name a -size +1k -uid 0 -print", "-name core -print", "-name x -regex x -print0", "-name y -fprint f", "-printf '%p %d\\n'", "-printf '%p\\n' -o -name q", "-user root", "-type f -print0", "-ls", "-mtime -1 -print"]
            .iter()
            .map(|s| s.to_string())
            .collect();
        let rounds = ctx.tier.pick(1500, 20000);
        acc.count("concurrent_compiles_sampled", (texts.len() * rounds) as u64);
        for (k, r, want, got) in crate::subject::concurrent_calls(&texts, rounds) {
            acc.violate(Violation::new(
                "C12:refusal-depends-on-other-threads",
                format!("{} threads compile their own expressions at once; thread {k} ({:?}) got in round {r}: {} -- alone it gets: {}", texts.len(), texts[k], got.lines().last().unwrap_or("").chars().take(300).collect::<String>(), want.lines().last().unwrap_or("").chars().take(300).collect::<String>()),
                json!({"kind": "concurrent"}),
            ));
        }
    }
    let mut extra = serde_json::Map::new();
    extra.insert("constructs_alone".into(), json!(singles.len()));
    finish(
        ctx,
        acc,
        Finish {
            level: "model_checking",
            exhaustive: true,
            rule: "state = expression tree built through the public constructors; compile() must fail exactly when the tree contains a construct of the spec-side 'inexpressible' partition, with an error text containing the subject's own name of one such construct in the tree; successful programs must read back with no unbound identifier; distinct = distinct error texts".into(),
            bound: format!("every construct of the vocabulary alone, negated and parenthesised ({} leaves); every tree with 2..{maxn} leaves over 3 supported + 8 unsupported representatives + true/false with all operators (dead branches included); chains of 9..300 operands (around every multiple of 64) under each operator with one unsupported construct at 7 positions, and under 9..300 negations; every compile is issued twice and the answers compared; 810 trees pairing an unsupported test with a supported test on the same argument text; a stress run of 10 threads compiling supported and unsupported expressions at once (sampled schedules, outside the bound)", singles.len()),
            assumptions: vec![
                "partition expressible/inexpressible: harness/speclib/src/eval.rs::inexpressible (from the subject's ast.rs comment block and the LiPE vocabulary)".into(),
                "the \\c escape may be refused or compiled".into(),
            ],
            extra,
        },
    )
}

pub fn replay(w: &Value) -> Vec<Violation> {
    if w["kind"] == "text" {
        let text = w["input"].as_str().unwrap_or("");
        if let (speclib::textspec::Spec::Accept { tree, .. }, crate::subject::P::Ok(o, e)) = (speclib::textspec::parse(text), crate::subject::parse_real(text)) {
            let bad = inexpressible(&tree);
            if !bad.is_empty() && matches!(compile_render(&e, &o, "/dev"), C::Ok(_)) {
                return vec![Violation::new(format!("C12:inexpressible-construct-compiled:{}:from-text", bad[0]), format!("{text:?} compiles"), w.clone())];
            }
        }
        return vec![];
    }
    if w["kind"] == "text-depth" {
        let text = w["input"].as_str().unwrap_or("");
        if let crate::subject::P::Ok(o, e) = crate::subject::parse_real(text) {
            let shown = format!("{o:?}").to_lowercase().replace('_', "");
            if !shown.contains("maxdepth") && !shown.contains("mindepth") && matches!(compile_render(&e, &o, "/dev"), C::Ok(_)) {
                return vec![Violation::new("C12:inexpressible-construct-compiled:depth-limit:from-text", format!("{text:?} compiles with the depth limit dropped"), w.clone())];
            }
        }
        return vec![];
    }
    let mut acc = Acc::new();
    if let Ok(t) = serde_json::from_value::<Expr>(w["tree"].clone()) {
        check(&t, &mut acc);
    }
    acc.violations.into_values().map(|(v, _)| v).collect()
}
