//! C17 — debug and release builds behave identically (DESIGN.md §4 C17).
use crate::props::children::{sweep, Rec};
use crate::props::corpus::corpus;
use serde_json::{json, Value};
use speclib::report::{finish, Acc, Ctx, Finish, Violation};

fn short(s: &str) -> String {
    if s.chars().count() > 80 {
        format!("{}… ({} bytes)", s.chars().take(60).collect::<String>(), s.len())
    } else {
        s.to_string()
    }
}

fn judge(inputs: &[String], rel: &[Rec], dbg: &[Rec], acc: &mut Acc) {
    for i in 0..inputs.len() {
        acc.states += 1;
        acc.transitions += 1;
        acc.validated += 1;
        let (r, d) = (&rel[i], &dbg[i]);
        let base = |c: &str| c.split(':').next().unwrap_or("").to_string();
        acc.count(&format!("class:{}", base(&r.class)), 1);
        acc.outcome(&r.hash);
        if r.class == "hang" || d.class == "hang" {
            acc.skip("no answer in time in one profile (termination is C03's subject)");
            continue;
        }
        if r.class == "not-run" || d.class == "not-run" {
            acc.skip("not run in one profile: its shard stopped after two hangs (C03 reports them)");
            continue;
        }
        if r.class != d.class || r.hash != d.hash {
            let sig = if r.class != d.class { format!("C17:outcome-kind-differs:debug={}:release={}", base(&d.class), base(&r.class)) } else { format!("C17:result-differs:{}", base(&r.class)) };
            acc.violate(Violation::new(
                sig,
                format!("input {:?}: debug build gives {} (record {:016x}), release build gives {} (record {:016x})", short(&inputs[i]), d.class, d.hash, r.class, r.hash),
                json!({"kind": "input", "input": inputs[i]}),
            ));
        }
    }
}

fn both(inputs: &[String], tag: &str) -> Result<(Vec<Rec>, Vec<Rec>), String> {
    let rel = sweep("release", inputs, tag)?;
    let dbg = sweep("debug", inputs, tag)?;
    Ok((rel, dbg))
}

pub fn run(ctx: &Ctx) -> i32 {
    let inputs = corpus(ctx.tier);
    let mut acc = Acc::new();
    match both(&inputs, "c17") {
        Ok((rel, dbg)) => judge(&inputs, &rel, &dbg, &mut acc),
        Err(e) => {
            println!("MACHINERY-ERROR C17 sweep: {e}");
            return 2;
        }
    }
    acc.sample(json!({"input": inputs[inputs.len() / 2]}));
    let mut extra = serde_json::Map::new();
    extra.insert("corpus_inputs".into(), json!(inputs.len()));
    finish(
        ctx,
        acc,
        Finish {
            level: "model_checking",
            exhaustive: true,
            rule: "state = input string of the C03 corpus; the debug and the release build of the same runner each produce one canonical record per input (parse result as options + tree, or error text, or panic site; compile result as program text for two device paths with the embedded clock second replaced, the destination table, or error text, or panic site); the records are compared pairwise; distinct = distinct records".into(),
            bound: format!("the complete C03 corpus ({} inputs), both profiles", inputs.len()),
            assumptions: vec!["integers within one day of the run's clock in the emitted program are the embedded compile-time second".into()],
            extra,
        },
    )
}

pub fn replay(w: &Value) -> Vec<Violation> {
    let mut acc = Acc::new();
    let inputs = vec![w["input"].as_str().unwrap_or("").to_string()];
    match both(&inputs, "c17-replay") {
        Ok((rel, dbg)) => judge(&inputs, &rel, &dbg, &mut acc),
        Err(e) => acc.violate(Violation::new("C17:replay-machinery", e, w.clone())),
    }
    acc.violations.into_values().map(|(v, _)| v).collect()
}
