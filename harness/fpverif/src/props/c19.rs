//! C19 — tree query helpers agree with the tree (DESIGN.md §4 C19).
use crate::conv;
use lipe_find_parser::ast as r;
use serde_json::{json, Value};
use speclib::ast::*;
use speclib::report::{finish, guard, panic_site, par_cases, Acc, Ctx, Finish, Violation};

fn nl() -> Fmt {
    Fmt::Special(Special::Newline)
}

fn leaves() -> Vec<Expr> {
    let a = |x| Expr::Action(x);
    let f = || "f".to_string();
    vec![
        a(Action::Fls(f())),
        a(Action::FPrint("/dev/stdout".into())),
        a(Action::FPrintf("/dev/stderr".into(), vec![Fmt::Field(Field::Name), nl()])),
        a(Action::FPrint("-".into())),
        a(Action::FPrint("/dev/null".into())),
        a(Action::FPrint(f())),
        a(Action::FPrint0(f())),
        a(Action::FPrintf(f(), vec![Fmt::Field(Field::Name), nl()])),
        a(Action::Ls),
        a(Action::Print),
        a(Action::Print0),
        a(Action::Printf(vec![Fmt::Lit("x".into())])),
        a(Action::Printf(vec![Fmt::Field(Field::Name), nl()])),
        a(Action::Printf(vec![nl(), Fmt::Lit("x".into())])),
        a(Action::Printf(vec![Fmt::Field(Field::Name), Fmt::Special(Special::Null)])),
        a(Action::Printf(vec![nl()])),
        a(Action::PrintFid),
        a(Action::Prune),
        a(Action::Quit),
        a(Action::DefaultPrint),
        Expr::Test(Test::True),
        Expr::Test(Test::Name("x".into())),
        Expr::Global(Global::Depth),
        Expr::Positional,
    ]
}

fn core() -> Vec<Expr> {
    let l = leaves();
    [9usize, 10, 12, 11, 20, 22].iter().map(|i| l[*i].clone()).collect()
}

fn unary(op: u8, e: Expr) -> Expr {
    match op {
        0 => Expr::not(e),
        _ => Expr::prec(e),
    }
}

fn binary(op: u8, a: Expr, b: Expr) -> Expr {
    match op {
        0 => Expr::and(a, b),
        1 => Expr::or(a, b),
        _ => Expr::list(a, b),
    }
}

pub fn check(tree: &Expr, acc: &mut Acc) {
    if tree.depth() > 20 {
        speclib::report::enter_case(|| format!("helper query on a tree of depth {} with {} leaves: {}…", tree.depth(), tree.leaves(), tree.show().chars().take(120).collect::<String>()));
    }
    acc.states += 1;
    acc.transitions += 1;
    acc.validated += 1;
    let wit = || json!({"kind": "tree", "tree": tree});
    let real = match conv::expr_to_real(tree) {
        Some(r) => r,
        None => return,
    };
    let want_action = tree.has_action();
    match guard(|| real.action()) {
        Ok(got) => {
            if got != want_action {
                acc.violate(Violation::new(
                    if want_action { "C19:action-not-found" } else { "C19:action-reported-but-absent" },
                    format!("{}: action() = {got}, but an action node {} in the tree", tree.show(), if want_action { "occurs" } else { "does not occur" }),
                    wit(),
                ));
            }
        }
        Err(p) => acc.violate(Violation::new(format!("C19:panic:{}", panic_site(&p)), format!("{}: action() panicked: {p}", tree.show()), wit())),
    }
    let want_framed = tree.needs_framing();
    match guard(|| real.complex_frames()) {
        Ok(got) => {
            acc.outcome(&(got, want_action));
            if got != want_framed {
                acc.violate(Violation::new(
                    if want_framed { "C19:framing-need-missed" } else { "C19:framing-reported-but-not-needed" },
                    format!("{}: complex_frames() = {got}; by the rule (file / NUL-terminated / format not ending in a newline escape) it is {want_framed}", tree.show()),
                    wit(),
                ));
            }
        }
        Err(p) => acc.violate(Violation::new(format!("C19:panic:{}", panic_site(&p)), format!("{}: complex_frames() panicked: {p}", tree.show()), wit())),
    }
}

fn units(acc: &mut Acc) {
    for u in SizeUnit::ALL {
        for n in [0u64, 1, 7] {
            acc.states += 1;
            acc.transitions += 1;
            let z = conv::size_to_real(n, u);
            if z.mult() as u128 != u.bytes() {
                acc.violate(Violation::new("C19:size-unit-wrong", format!("{z:?}.mult() = {}, expected {}", z.mult(), u.bytes()), json!({"kind": "unit", "size": [n, format!("{u:?}")]})));
            }
        }
    }
    for u in TimeUnit::ALL {
        for n in [0u64, 1, 7] {
            acc.states += 1;
            acc.transitions += 1;
            let t = conv::time_to_real(n, u);
            if t.secs() as u128 != u.secs() {
                acc.violate(Violation::new("C19:time-unit-wrong", format!("{t:?}.secs() = {}, expected {}", t.secs(), u.secs()), json!({"kind": "unit", "time": [n, format!("{u:?}")]})));
            }
        }
    }
    // byte_size on a boundary lattice, wherever count x unit fits u64
    let mut lattice: Vec<u128> = vec![0, 1, 2, 9, 10, (1 << 31) - 1, 1 << 31, (1 << 32) - 1, 1 << 32, (1 << 32) + 1, (1u128 << 63) - 1, 1 << 63, (1u128 << 64) - 1];
    for u in SizeUnit::ALL {
        let q = (1u128 << 64) / u.bytes();
        lattice.extend([q.saturating_sub(2), q.saturating_sub(1), q / 2, q / 3 + 1]);
    }
    lattice.sort();
    lattice.dedup();
    for u in SizeUnit::ALL {
        for &n in &lattice {
            if n > u64::MAX as u128 || n * u.bytes() > u64::MAX as u128 {
                continue;
            }
            acc.states += 1;
            acc.transitions += 1;
            let z = conv::size_to_real(n as u64, u);
            let wit = json!({"kind": "unit", "byte_size": [n.to_string(), format!("{u:?}")]});
            match guard(|| z.byte_size()) {
                Ok(b) => {
                    acc.outcome(&b);
                    if b as u128 != n * u.bytes() {
                        acc.violate(Violation::new("C19:byte-size-wrong", format!("{z:?}.byte_size() = {b}, expected {}", n * u.bytes()), wit));
                    }
                }
                Err(p) => acc.violate(Violation::new(format!("C19:panic:{}", panic_site(&p)), format!("{z:?}.byte_size() panicked: {p}"), wit)),
            }
        }
    }
    let _ = r::Size::Byte(0);
}

/// One interesting leaf under an operator path: path element = (operator 0..4, side 0/1).
fn under_path(leaf: &Expr, filler: &Expr, path: &[(u8, u8)]) -> Expr {
    let mut e = leaf.clone();
    for (op, side) in path.iter().rev() {
        e = match op {
            0 | 1 => unary(*op, e),
            o => {
                if *side == 0 {
                    binary(o - 2, e, filler.clone())
                } else {
                    binary(o - 2, filler.clone(), e)
                }
            }
        };
    }
    e
}

pub fn run(ctx: &Ctx) -> i32 {
    let ls = leaves();
    let cr = if ctx.tier == speclib::report::Tier::Thorough {
        // thorough: a 12-leaf core for the 4-leaf trees
        [9usize, 10, 12, 11, 20, 22, 5, 6, 7, 13, 16, 18].iter().map(|i| ls[*i].clone()).collect()
    } else {
        core()
    };
    let mut acc = Acc::new();
    units(&mut acc);
    // all trees with <= 3 leaves over all leaves, all five operator variants
    // 1 leaf: leaf, unary(leaf), unary(unary(leaf))
    let n1 = ls.len() as u64 * 7;
    acc = acc.merge(par_cases(n1, |i, acc| {
        let l = ls[(i / 7) as usize].clone();
        let e = match i % 7 {
            0 => l,
            1 => unary(0, l),
            2 => unary(1, l),
            3 => unary(0, unary(0, l)),
            4 => unary(0, unary(1, l)),
            5 => unary(1, unary(0, l)),
            _ => unary(1, unary(1, l)),
        };
        check(&e, acc);
    }));
    // 2 leaves: op(a,b) with optional unary on each operand and on the root
    let m = ls.len() as u64;
    acc = acc.merge(par_cases(m * m * 3 * 27, |mut i, acc| {
        let a = ls[(i % m) as usize].clone();
        i /= m;
        let b = ls[(i % m) as usize].clone();
        i /= m;
        let op = (i % 3) as u8;
        i /= 3;
        let wrap = |k: u64, e: Expr| match k {
            0 => e,
            1 => unary(0, e),
            _ => unary(1, e),
        };
        let e = wrap(i / 9, binary(op, wrap(i % 3, a), wrap((i / 3) % 3, b)));
        check(&e, acc);
    }));
    // 3 leaves over all leaves: both shapes, all operator pairs
    acc = acc.merge(par_cases(m * m * m * 9 * 2, |mut i, acc| {
        let a = ls[(i % m) as usize].clone();
        i /= m;
        let b = ls[(i % m) as usize].clone();
        i /= m;
        let c = ls[(i % m) as usize].clone();
        i /= m;
        let (o1, o2) = ((i % 3) as u8, ((i / 3) % 3) as u8);
        let e = if i / 9 == 0 { binary(o1, binary(o2, a, b), c) } else { binary(o1, a, binary(o2, b, c)) };
        check(&e, acc);
    }));
    // 4 leaves over the core
    let k = cr.len() as u64;
    let shapes = speclib::trees::shapes(4);
    acc = acc.merge(par_cases(speclib::trees::count(4, k), |i, acc| {
        check(&speclib::trees::nth(&shapes, 4, &cr, i), acc);
    }));
    // deep paths: every (op, side) path of length <= L with each interesting leaf at the bottom
    let plen = ctx.tier.pick(5, 6);
    let steps: Vec<(u8, u8)> = vec![(0, 0), (1, 0), (2, 0), (2, 1), (3, 0), (3, 1), (4, 0), (4, 1)];
    let interesting = [ls[9].clone(), ls[10].clone(), ls[11].clone(), ls[20].clone(), ls[1].clone()];
    let filler = Expr::Test(Test::True);
    for len in 1..=plen {
        let total = (steps.len() as u64).pow(len as u32) * interesting.len() as u64;
        acc = acc.merge(par_cases(total, |mut i, acc| {
            let leaf = &interesting[(i % interesting.len() as u64) as usize];
            i /= interesting.len() as u64;
            let mut path = vec![];
            for _ in 0..len {
                path.push(steps[(i % steps.len() as u64) as usize]);
                i /= steps.len() as u64;
            }
            check(&under_path(leaf, &filler, &path), acc);
        }));
    }
    // periodic paths to depth 12
    for period in 1..=3usize {
        for mut i in 0..steps.len().pow(period as u32) {
            let mut p = vec![];
            for _ in 0..period {
                p.push(steps[i % steps.len()]);
                i /= steps.len();
            }
            let path: Vec<(u8, u8)> = (0..12).map(|k| p[k % period]).collect();
            for leaf in &interesting {
                check(&under_path(leaf, &filler, &path), &mut acc);
            }
        }
    }
    // deep: one step kind repeated (and two alternating) above each interesting leaf, to depths
    // of every size in the range up to 1000 — a left-folded command line of n terms nests n-1 deep
    let depths: Vec<usize> = (13..=300).chain([511, 512, 513, 1000]).collect();
    let deep_cases: Vec<(usize, usize, usize)> = depths.iter().flat_map(|d| (0..steps.len()).flat_map(move |a| (0..2).map(move |b| (*d, a, b)))).collect();
    acc = acc.merge(speclib::report::par_items(&deep_cases, |(d, a, b), acc| {
        let second = if *b == 0 { steps[*a] } else { steps[(*a + 3) % steps.len()] };
        let path: Vec<(u8, u8)> = (0..*d).map(|k| if k % 2 == 0 { steps[*a] } else { second }).collect();
        for leaf in &interesting {
            check(&under_path(leaf, &filler, &path), acc);
        }
    }));
    // every way a format can end: each octal escape value, literals that merely spell an escape,
    // more than one newline; alone, after a name test, and next to a plain -print
    {
        let mut ends: Vec<Vec<Fmt>> = (0u16..512).map(|n| vec![Fmt::Field(Field::Name), Fmt::Special(Special::Ascii(n))]).collect();
        for l in ["\\n", "\n", "n", "\\", "\\012", "~%", "\r\n"] {
            ends.push(vec![Fmt::Field(Field::Name), Fmt::Lit(l.into())]);
            ends.push(vec![Fmt::Lit(l.into())]);
        }
        for sp in [Special::Alarm, Special::Backspace, Special::Form, Special::CarriageReturn, Special::Tab, Special::VTab, Special::Null, Special::Backslash, Special::Newline] {
            ends.push(vec![Fmt::Field(Field::Name), Fmt::Special(sp.clone())]);
            ends.push(vec![Fmt::Field(Field::Name), nl(), Fmt::Special(sp.clone())]);
            ends.push(vec![Fmt::Field(Field::Name), Fmt::Special(sp), nl()]);
        }
        ends.push(vec![Fmt::Field(Field::Name), nl(), nl()]);
        ends.push(vec![nl(), nl(), nl()]);
        let mut e = Acc::new();
        for f in ends {
            let a = Expr::Action(Action::Printf(f));
            check(&a, &mut e);
            check(&Expr::and(Expr::Test(Test::Name("x".into())), a.clone()), &mut e);
            check(&Expr::or(Expr::Action(Action::Print), Expr::not(a)), &mut e);
        }
        acc = acc.merge(e);
    }
    // very large trees: 4095..131073 leaves, balanced (node count) and as chains (depth), with the
    // deciding leaf first / last / absent, and built of actions only (occurrence counters)
    {
        use speclib::trees::{balanced, left_chain, on_big_stack, Op};
        let huge = on_big_stack(move || {
            let mut h = Acc::new();
            let t = || Expr::Test(Test::True);
            let print = || Expr::Action(Action::Print);
            let framed = || Expr::Action(Action::Print0);
            for n in [4095usize, 4096, 4097, 5000, 32768, 65535, 65536, 65537, 70000, 131072, 131073] {
                for op in [Op::Or, Op::And, Op::List] {
                    let tests: Vec<Expr> = (0..n).map(|_| t()).collect();
                    let prints: Vec<Expr> = (0..n).map(|_| print()).collect();
                    let mut last_action = tests.clone();
                    last_action.push(print());
                    let mut last_framed = tests.clone();
                    last_framed.push(framed());
                    let mut first_framed = vec![framed()];
                    first_framed.extend(prints.iter().cloned());
                    for leaves in [&tests, &prints, &last_action, &last_framed, &first_framed] {
                        check(&balanced(op, leaves), &mut h);
                        if n <= 5000 {
                            check(&left_chain(op, leaves), &mut h);
                        }
                    }
                    // n negations / parentheses above the deciding leaf
                    if n <= 5000 {
                        let mut e = framed();
                        for _ in 0..n {
                            e = Expr::not(e);
                        }
                        check(&Expr::or(print(), e), &mut h);
                    }
                }
            }
            h
        });
        match huge {
            Some(h) => acc = acc.merge(h),
            None => acc.violate(Violation::new("C19:panic:very-large-tree", "the helpers (or the conversion to the subject's tree) died on a tree of 4095..131073 leaves".to_string(), json!({"kind": "huge"}))),
        }
    }
    // the same node queried before and after it is changed in place (through the public Rc), and
    // large trees dropped and rebuilt in a loop (allocations get reused)
    {
        use lipe_find_parser::ast::{Expression, Operator};
        use std::rc::Rc;
        let mut seq = Acc::new();
        let big = |leaf: &Expr, n: usize| {
            let mut e = leaf.clone();
            for k in 0..n {
                e = if k % 2 == 0 { Expr::or(e, Expr::Test(Test::Name(format!("n{k}")))) } else { Expr::and(Expr::Test(Test::True), e) };
            }
            e
        };
        let leafs = [ls[9].clone(), ls[10].clone(), ls[20].clone(), ls[1].clone(), ls[12].clone()];
        for round in 0..200usize {
            for n in [3usize, 40, 70, 100] {
                let a = &leafs[round % leafs.len()];
                let b = &leafs[(round + 1 + n) % leafs.len()];
                // query a tree, drop it, build another of the same shape, query again
                let t1 = big(a, n);
                check(&t1, &mut seq);
                drop(t1);
                let t2 = big(b, n);
                check(&t2, &mut seq);
                // edit in place: replace the root operator of the real tree and ask again
                if let Some(mut real) = conv::expr_to_real(&t2) {
                    let before = (real.action(), real.complex_frames());
                    let replacement_spec = big(a, 2);
                    if let (Expression::Operator(rc), Some(repl)) = (&mut real, conv::expr_to_real(&replacement_spec)) {
                        if let Some(op) = Rc::get_mut(rc) {
                            *op = Operator::Not(repl);
                            let want = (Expr::not(replacement_spec.clone()).has_action(), Expr::not(replacement_spec.clone()).needs_framing());
                            let got = (real.action(), real.complex_frames());
                            seq.states += 1;
                            seq.transitions += 1;
                            if got != want {
                                seq.violate(Violation::new(
                                    "C19:answer-does-not-follow-an-in-place-change",
                                    format!("a tree of {} leaves answered {before:?}; after its root was replaced in place by {} the helpers answer {got:?}, the tree says {want:?}", t2.leaves(), Expr::not(replacement_spec).show().chars().take(80).collect::<String>()),
                                    json!({"kind": "in-place", "round": round, "n": n}),
                                ));
                            }
                        }
                    }
                }
            }
        }
        acc = acc.merge(seq);
    }
    acc.sample(json!({"tree": under_path(&interesting[1], &filler, &[(2, 1), (0, 0), (4, 0)]).show()}));
    finish(
        ctx,
        acc,
        Finish {
            level: "model_checking",
            exhaustive: true,
            rule: "state = expression tree built through the public types (all five operator variants, option nodes included); action() and complex_frames() compared with independent recursive definitions; unit helpers against the constants of the property text; byte_size against 128-bit arithmetic on a boundary lattice; distinct = distinct (helper result) observations".into(),
            bound: format!("all trees with <= 3 leaves over 23 leaves (file names include /dev/stdout, /dev/stderr and -) (unary wrappers on operands and root for <= 2 leaves), all 4-leaf trees over a 6-leaf core (thorough: 12-leaf), every operator path of length <= {plen} above 4 leaves, every periodic path (period <= 3) to depth 12; single-kind and alternating paths of every depth 13..70 and of every size in the range up to 1000"),
            assumptions: vec!["a formatted print with an empty element list is outside the alphabet (the rule does not decide it)".into()],
            extra: serde_json::Map::new(),
        },
    )
}

pub fn replay(w: &Value) -> Vec<Violation> {
    let mut acc = Acc::new();
    if w["kind"] == "unit" {
        units(&mut acc);
    } else if let Ok(t) = serde_json::from_value::<Expr>(w["tree"].clone()) {
        check(&t, &mut acc);
    }
    acc.violations.into_values().map(|(v, _)| v).collect()
}
