//! C08 — permission arguments denote the bits chmod would compute (DESIGN.md §4 C08).
use crate::conv;
use crate::policy::observe;
use crate::subject::{self, compile_render, parse_spec, C, PS};
use serde_json::{json, Value};
use speclib::ast::*;
use speclib::eval as spec_eval;
use speclib::record::Record;
use speclib::report::{finish, panic_site, par_cases, par_items, Acc, Ctx, Finish, Tier, Violation};
use speclib::textspec::{apply_clause, PERM, WHO};
use std::collections::BTreeMap;

#[derive(Clone, Debug, PartialEq, Eq)]
struct Clause {
    text: String,
    who: u32,
    op: char,
    perm: u32,
}

fn subsets<'a>(letters: &'a [(char, u32)]) -> Vec<(String, u32)> {
    let mut out = vec![];
    for mask in 1..(1u32 << letters.len()) {
        let mut s = String::new();
        let mut m = 0;
        for (i, (c, b)) in letters.iter().enumerate() {
            if mask & (1 << i) != 0 {
                s.push(*c);
                m |= b;
            }
        }
        out.push((s, m));
    }
    out
}

fn clauses() -> Vec<Clause> {
    let mut v = vec![];
    for (ws, w) in subsets(&WHO) {
        for op in ['+', '-', '='] {
            for (ps, p) in subsets(&PERM) {
                v.push(Clause { text: format!("{ws}{op}{ps}"), who: w, op, perm: p });
            }
        }
    }
    v
}

/// the mode the subject was observed to compute for '-' (kept only to name the known finding):
/// it clears the bits of `who` that are NOT in `perm`
fn as_built(mode: u32, c: &Clause) -> u32 {
    match c.op {
        '-' => mode & !(c.who & !c.perm),
        _ => apply_clause(mode, c.who, c.op, c.perm),
    }
}

fn prefix_kind(p: &str) -> PermKind {
    match p {
        "-" => PermKind::AtLeast,
        "/" => PermKind::Any,
        _ => PermKind::Equal,
    }
}

fn real_perm(arg: &str) -> Result<(PermKind, u32), String> {
    match parse_spec(&format!("-perm {arg}")) {
        PS::Ok(_, Expr::Test(Test::Perm(k, b))) => Ok((k, b)),
        PS::Ok(_, t) => Err(format!("tree {}", t.show())),
        PS::Err(e) => Err(format!("error: {e}")),
        PS::Panic(p) => Err(format!("panic: {p}")),
    }
}

fn check_list(prefix: &str, list: &[&Clause], acc: &mut Acc) {
    acc.states += 1;
    acc.transitions += 1;
    acc.validated += 1;
    let arg = format!("{prefix}{}", list.iter().map(|c| c.text.as_str()).collect::<Vec<_>>().join(","));
    let want = list.iter().fold(0u32, |m, c| apply_clause(m, c.who, c.op, c.perm));
    let built = list.iter().fold(0u32, |m, c| as_built(m, c));
    let wit = || json!({"kind": "perm-arg", "arg": arg});
    match real_perm(&arg) {
        Ok((k, b)) => {
            acc.outcome(&b);
            if k != prefix_kind(prefix) {
                acc.violate(Violation::new(format!("C08:wrong-check-kind:prefix={prefix:?}"), format!("-perm {arg}: check kind {k:?}"), wit()));
            } else if b != want {
                let sig = if b == built && list.iter().any(|c| c.op == '-') { "C08:minus-clause-clears-complement" } else { "C08:symbolic-mode-wrong" };
                acc.violate(Violation::new(sig, format!("-perm {arg} denotes {b:04o}; chmod's rules from mode 0 give {want:04o}"), wit()));
            }
        }
        Err(e) => {
            let sig = if e.starts_with("panic") { format!("C08:panic:{}", panic_site(&e[7..])) } else { "C08:symbolic-mode-rejected".to_string() };
            acc.violate(Violation::new(sig, format!("-perm {arg}: {e}"), wit()));
        }
    }
}

fn check_octal(prefix: &str, text: &str, value: u32, acc: &mut Acc) {
    acc.states += 1;
    acc.transitions += 1;
    acc.validated += 1;
    let arg = format!("{prefix}{text}");
    let wit = || json!({"kind": "perm-arg", "arg": arg});
    match real_perm(&arg) {
        Ok((k, b)) => {
            acc.outcome(&b);
            if k != prefix_kind(prefix) {
                acc.violate(Violation::new(format!("C08:wrong-check-kind:prefix={prefix:?}"), format!("-perm {arg}: check kind {k:?}"), wit()));
            } else if b != value {
                acc.violate(Violation::new("C08:octal-mode-wrong", format!("-perm {arg} denotes {b:04o}; its octal value is {value:04o}"), wit()));
            }
        }
        Err(e) => {
            let sig = if e.starts_with("panic") { format!("C08:panic:{}", panic_site(&e[7..])) } else { "C08:octal-mode-rejected".to_string() };
            acc.violate(Violation::new(sig, format!("-perm {arg}: {e}"), wit()));
        }
    }
}

/// The emitted comparison for (kind, bits) must select exactly the files the check names.
fn check_policy(kind: PermKind, bits: u32, all_modes: bool, acc: &mut Acc) {
    check_policy_in(kind, bits, all_modes, 0, acc)
}

/// `context`: 0 = the -perm test alone; 1 = `-type f -a -perm`; 2 = `-perm -a -type d`;
/// 3 = `-type l -o -perm`.
fn check_policy_in(kind: PermKind, bits: u32, all_modes: bool, context: u8, acc: &mut Acc) {
    acc.states += 1;
    acc.transitions += 1;
    acc.validated += 1;
    let perm = Expr::Test(Test::Perm(kind, bits));
    let ty = |t| Expr::Test(Test::Type(vec![t]));
    let tree = match context {
        0 => perm,
        1 => Expr::and(ty(FType::File), perm),
        2 => Expr::and(perm, ty(FType::Dir)),
        _ => Expr::or(ty(FType::Link), perm),
    };
    let wit = || json!({"kind": "perm-policy", "check": format!("{kind:?}"), "bits": bits, "context": context});
    let real = conv::expr_to_real(&tree).unwrap();
    let (text, io) = match compile_render(&real, &subject::options(false, None), "/dev") {
        C::Ok(v) => v,
        C::Err(e) => {
            acc.violate(Violation::new("C08:compile-refused", format!("{}: {e}", tree.show()), wit()));
            return;
        }
        C::Panic(p) => {
            acc.violate(Violation::new(format!("C08:panic:{}", panic_site(&p)), format!("{}: {p}", tree.show()), wit()));
            return;
        }
    };
    let mut modes: Vec<u32> = if all_modes { (0..4096).collect() } else { vec![bits, 0, 0o7777, !bits & 0o7777] };
    if !all_modes {
        for b in 0..12 {
            modes.push(bits ^ (1 << b));
        }
    }
    let base = Record::distinct(1_700_000_000);
    let mut recs = vec![];
    for t in [0o100000u32, 0o040000, 0o120000] {
        for m in &modes {
            recs.push(Record { mode: t | m, ..base.clone() });
        }
    }
    let obs = match observe(&text, &io, &recs) {
        Ok(o) => o,
        Err(e) => {
            acc.violate(Violation::new("C08:policy-runtime-failure", format!("{}: {e}", tree.show()), wit()));
            return;
        }
    };
    for (r, o) in recs.iter().zip(obs.records.iter()) {
        let want = spec_eval::eval(&tree, r, 0).unwrap().truth.unwrap();
        // implicit print: the file is printed exactly when the test holds
        let printed = !o.events.is_empty();
        if printed != want {
            acc.violate(Violation::new(
                format!("C08:emitted-check-wrong:{kind:?}{}", ["", ":next-to-type-test", ":next-to-type-test", ":next-to-type-test"][context as usize]),
                format!("{} on a file of mode {:o}: policy selects = {printed}, the check names = {want}", tree.show(), r.mode),
                wit(),
            ));
            return;
        }
    }
}

/// Any tree of -perm tests: compiled, run on files of the given modes, selection compared with
/// the checks' definitions.
fn check_tree_policy(tree: &Expr, modes: &[u32], family: &str, acc: &mut Acc) {
    acc.states += 1;
    acc.transitions += 1;
    acc.validated += 1;
    let wit = || json!({"kind": "perm-tree", "tree": tree, "modes": modes, "family": family});
    let Some(real) = conv::expr_to_real(tree) else { return };
    let (text, io) = match compile_render(&real, &subject::options(false, None), "/dev") {
        C::Ok(v) => v,
        C::Err(e) => {
            acc.violate(Violation::new("C08:compile-refused", format!("{}: {e}", tree.show()), wit()));
            return;
        }
        C::Panic(p) => {
            acc.violate(Violation::new(format!("C08:panic:{}", panic_site(&p)), format!("{}: {p}", tree.show()), wit()));
            return;
        }
    };
    let base = Record::distinct(1_700_000_000);
    let recs: Vec<Record> = modes.iter().map(|m| Record { mode: 0o100000 | m, ..base.clone() }).collect();
    let obs = match observe(&text, &io, &recs) {
        Ok(o) => o,
        Err(e) => {
            acc.violate(Violation::new("C08:policy-runtime-failure", format!("{}: {e}", tree.show()), wit()));
            return;
        }
    };
    for (r, o) in recs.iter().zip(obs.records.iter()) {
        let want = spec_eval::eval(tree, r, 0).unwrap().truth.unwrap();
        let printed = !o.events.is_empty();
        if printed != want {
            acc.violate(Violation::new(
                format!("C08:emitted-check-wrong:{family}"),
                format!("{} on a file of mode {:04o}: policy selects = {printed}, the checks name = {want}", tree.show(), r.mode & 0o7777),
                wit(),
            ));
            return;
        }
    }
}

fn directed_modes(masks: &[u32]) -> Vec<u32> {
    let mut v = vec![0, 0o7777];
    let all = masks.iter().fold(0, |a, b| a | b);
    for &m in masks {
        v.extend([m, !m & 0o7777, m & !masks[0], masks[0] & !m, m & masks[0]]);
        for b in 0..12 {
            if all & (1 << b) != 0 {
                v.push(m ^ (1 << b));
                v.push(1 << b);
                v.push(all & !(1 << b));
            }
        }
    }
    v.sort();
    v.dedup();
    v
}

/// Negated checks for every mask, and every ordered pair of checks over 12 masks under each
/// operator (with a test in between, negated, parenthesised).
fn combined_checks(thorough: bool) -> Acc {
    let kinds = [PermKind::Equal, PermKind::AtLeast, PermKind::Any];
    let mut acc = par_cases(4096 * 3, |i, acc| {
        let bits = (i / 3) as u32;
        let k = kinds[(i % 3) as usize];
        let p = Expr::Test(Test::Perm(k, bits));
        let modes = directed_modes(&[bits]);
        check_tree_policy(&Expr::not(p.clone()), &modes, "negated", acc);
        if bits % 73 == 0 || bits.count_ones() <= 1 || [0o700, 0o070, 0o007, 0o777, 0o7000, 0o7777].contains(&bits) {
            check_tree_policy(&Expr::not(Expr::not(p.clone())), &modes, "negated", acc);
            check_tree_policy(&Expr::not(Expr::prec(p)), &modes, "negated", acc);
        }
    });
    let mut masks = vec![0u32, 0o002, 0o222, 0o200, 0o700, 0o070, 0o007, 0o111, 0o100, 0o777, 0o4000, 0o644];
    if thorough {
        masks.extend([0o001, 0o004, 0o020, 0o040, 0o400, 0o600, 0o060, 0o006, 0o755, 0o750, 0o440, 0o1000, 0o2000, 0o6000, 0o7000, 0o7777, 0o3, 0o5, 0o33, 0o55, 0o330, 0o550, 0o660, 0o666, 0o444, 0o711, 0o1777, 0o2755]);
    }
    let leaves: Vec<Expr> = masks.iter().flat_map(|m| kinds.iter().map(move |k| Expr::Test(Test::Perm(*k, *m)))).collect();
    let n = leaves.len() as u64;
    acc = acc.merge(par_cases(n * n, |i, acc| {
        let (a, b) = (&leaves[(i / n) as usize], &leaves[(i % n) as usize]);
        let (ma, mb) = match (a, b) {
            (Expr::Test(Test::Perm(_, x)), Expr::Test(Test::Perm(_, y))) => (*x, *y),
            _ => unreachable!(),
        };
        let modes = directed_modes(&[ma, mb]);
        let name = Expr::Test(Test::True);
        for t in [
            Expr::and(a.clone(), b.clone()),
            Expr::or(a.clone(), b.clone()),
            Expr::List(Box::new(a.clone()), Box::new(b.clone())),
            Expr::and(Expr::and(a.clone(), name.clone()), b.clone()),
            Expr::and(a.clone(), Expr::not(b.clone())),
            Expr::and(Expr::not(a.clone()), b.clone()),
            Expr::not(Expr::and(a.clone(), b.clone())),
            Expr::and(a.clone(), Expr::prec(b.clone())),
            Expr::or(Expr::and(a.clone(), b.clone()), Expr::Test(Test::False)),
        ] {
            check_tree_policy(&t, &modes, "two-checks", acc);
        }
    }));
    acc
}

pub fn run(ctx: &Ctx) -> i32 {
    let cl = clauses();
    let mut acc = Acc::new();
    acc = acc.merge(combined_checks(ctx.tier == Tier::Thorough));
    // octal: all 4096 values in every admissible spelling x 3 prefixes
    acc = acc.merge(par_cases(4096 * 3, |i, acc| {
        let v = (i / 3) as u32;
        let p = ["", "-", "/"][(i % 3) as usize];
        if v < 512 {
            check_octal(p, &format!("{v:03o}"), v, acc);
        }
        check_octal(p, &format!("{v:04o}"), v, acc);
        // more digits than four are still octal numbers (leading zeros)
        check_octal(p, &format!("{v:05o}"), v, acc);
        if v % 7 == 0 || v < 64 {
            check_octal(p, &format!("{v:06o}"), v, acc);
            check_octal(p, &format!("{v:09o}"), v, acc);
        }
    }));
    // five-digit octal arguments above 07777 are not modes: they must be refused, never truncated
    acc = acc.merge(par_cases((0o100000 - 0o10000) * 3, |i, acc| {
        let v = 0o10000 + (i / 3) as u32;
        let p = ["", "-", "/"][(i % 3) as usize];
        acc.states += 1;
        acc.transitions += 1;
        let arg = format!("{p}{v:o}");
        match real_perm(&arg) {
            Ok((_, b)) => acc.violate(Violation::new(
                "C08:octal-above-07777-accepted",
                format!("-perm {arg} is accepted and denotes {b:04o}; its octal value {v:o} is not a permission mode"),
                json!({"kind": "perm-arg", "arg": arg}),
            )),
            Err(e) if e.starts_with("panic") => acc.violate(Violation::new(format!("C08:panic:{}", panic_site(&e[7..])), format!("-perm {arg}: {e}"), json!({"kind": "perm-arg", "arg": arg}))),
            Err(_) => {}
        }
    }));
    // a valid argument followed by anything outside the argument language is refused as a whole
    {
        let valid = ["644", "0755", "7777", "u+x", "a=rw", "go-w", "u+r,g+w", "ug+rw,o=r"];
        let tails = ["8", "9", "s", "t", "X", "x9", ",", ",+x", ",8", "+", "=q", " ", ";", "u", ",,u+x"];
        let mut a = Acc::new();
        for p in ["", "-", "/"] {
            for v in valid {
                for t in tails {
                    let arg = format!("{p}{v}{t}");
                    let input = format!("-perm '{arg}'");
                    a.states += 1;
                    a.transitions += 1;
                    // the reference decides what is outside the language (some tails extend a clause validly)
                    if !matches!(speclib::textspec::parse(&input), speclib::textspec::Spec::Reject(_)) {
                        continue;
                    }
                    match parse_spec(&input) {
                        PS::Ok(_, t) => a.violate(Violation::new(
                            "C08:argument-with-trailing-text-accepted",
                            format!("{input:?} is accepted as {}; the text after {v:?} is not part of a permission argument", t.show()),
                            json!({"kind": "perm-arg", "arg": arg}),
                        )),
                        PS::Panic(e) => a.violate(Violation::new(format!("C08:panic:{}", panic_site(&e)), format!("{input}: {e}"), json!({"kind": "perm-arg", "arg": arg}))),
                        PS::Err(_) => {}
                    }
                }
            }
        }
        acc = acc.merge(a);
    }
    // letters repeated or in another order denote the same clause
    {
        let mut odd: Vec<Clause> = vec![];
        for (text, who, op, perm) in [
            ("u=rwxx", 0o700, '=', 0o7), ("a+rwxrwx", 0o777, '+', 0o7), ("uu+w", 0o700, '+', 0o2), ("ugoa=r", 0o777, '=', 0o4), ("ou+xr", 0o707, '+', 0o5), ("gg=xx", 0o070, '=', 0o1),
            ("au+x", 0o777, '+', 0o1), ("oog+wrw", 0o077, '+', 0o6), ("a=xwr", 0o777, '=', 0o7),
        ] {
            // perm is given for one class (rwx = 7); spread it over the classes of who
            let spread = (0..3).fold(0u32, |m, k| if who & (0o7 << (3 * k)) != 0 { m | (perm << (3 * k)) } else { m });
            odd.push(Clause { text: text.to_string(), who, op, perm: spread });
        }
        let mut a = Acc::new();
        for p in ["", "-", "/"] {
            for c in &odd {
                check_list(p, &[c], &mut a);
                check_list(p, &[&cl[17], c], &mut a);
            }
        }
        acc = acc.merge(a);
    }
    // single clauses under every prefix
    acc = acc.merge(par_cases(cl.len() as u64 * 3, |i, acc| {
        let c = &cl[(i / 3) as usize];
        check_list(["", "-", "/"][(i % 3) as usize], &[c], acc);
    }));
    // every two-clause list
    let n = cl.len() as u64;
    let prefixes: &[&str] = &["", "-", "/"];
    for p in prefixes {
        acc = acc.merge(par_cases(n * n, |i, acc| check_list(p, &[&cl[(i / n) as usize], &cl[(i % n) as usize]], acc)));
    }
    // state-space coverage of the clause fold: BFS over reference-reachable modes
    let mut witness: BTreeMap<u32, Vec<usize>> = BTreeMap::new();
    witness.insert(0, vec![]);
    let mut frontier = vec![0u32];
    while let Some(m) = frontier.pop() {
        let w = witness[&m].clone();
        for (ci, c) in cl.iter().enumerate() {
            let nm = apply_clause(m, c.who, c.op, c.perm);
            if !witness.contains_key(&nm) && w.len() < 6 {
                let mut nw = w.clone();
                nw.push(ci);
                witness.insert(nm, nw);
                frontier.insert(0, nm);
            }
        }
    }
    let states: Vec<(u32, Vec<usize>)> = witness.into_iter().filter(|(m, _)| *m != 0).collect();
    let reach = states.len() + 1;
    acc = acc.merge(par_cases(states.len() as u64 * cl.len() as u64, |i, acc| {
        let (_, w) = &states[(i / cl.len() as u64) as usize];
        let mut list: Vec<&Clause> = w.iter().map(|k| &cl[*k]).collect();
        list.push(&cl[(i % cl.len() as u64) as usize]);
        check_list("", &list, acc);
    }));
    if ctx.tier == Tier::Thorough {
        // all three-clause lists over a 45-clause sub-alphabet: history-dependent implementations
        let sub: Vec<&Clause> = cl
            .iter()
            .filter(|c| ["u", "g", "a"].contains(&c.text.split(|x| "+-=".contains(x)).next().unwrap()) && ["r", "w", "x", "rw", "rwx"].contains(&c.text.split(|x| "+-=".contains(x)).nth(1).unwrap()))
            .collect();
        let k = sub.len() as u64;
        acc = acc.merge(par_cases(k * k * k, |i, acc| check_list("", &[sub[(i / k / k) as usize], sub[((i / k) % k) as usize], sub[(i % k) as usize]], acc)));
        // letters in reversed and duplicated order
        let odd: Vec<String> = vec!["ou+xr".into(), "uu+rr".into(), "ag-xw".into(), "ogu=xwr".into(), "a=rrw,uu-x".into()];
        let mut o = Acc::new();
        for a in &odd {
            let parts: Vec<Clause> = a
                .split(',')
                .map(|t| {
                    let (who, op, perm) = speclib::textspec::clause(t).unwrap();
                    Clause { text: t.to_string(), who, op, perm }
                })
                .collect();
            check_list("", &parts.iter().collect::<Vec<_>>(), &mut o);
        }
        acc = acc.merge(o);
    }
    // long clause lists: n clauses taken cyclically from the alphabet with a stride
    let long_cases: Vec<(usize, usize, usize)> = [7usize, 8, 16, 17, 32, 33, 64, 65, 100, 128, 129, 255, 256, 257]
        .iter()
        .flat_map(|n| [1usize, 7, 31, 101].into_iter().flat_map(move |stride| [0usize, 5, 200].into_iter().map(move |start| (*n, stride, start))))
        .collect();
    acc = acc.merge(par_items(&long_cases, |(n, stride, start), acc| {
        let list: Vec<&Clause> = (0..*n).map(|k| &cl[(start + k * stride) % cl.len()]).collect();
        for p in ["", "-", "/"] {
            check_list(p, &list, acc);
        }
    }));
    // histories: after a refused -perm argument (error in the first, second, third clause) every
    // single clause and a few octal values must still denote what they denote on a fresh thread
    {
        let refused = ["u=r,g+q", "q", "u+r,g=w,o-z", "u=r,g=w!", "99999", "u+rwx,", "a=rwx,u-r,q"];
        let res = std::thread::scope(|s| {
            let cl = &cl;
            s.spawn(move || {
                let mut a = Acc::new();
                for r in refused {
                    for c in cl.iter() {
                        let _ = real_perm(r);
                        check_list("", &[c], &mut a);
                    }
                    let _ = real_perm(r);
                    check_octal("-", "0644", 0o644, &mut a);
                }
                a
            })
            .join()
            .unwrap()
        });
        let renamed: Vec<Violation> = res.violations.values().map(|(v, _)| Violation::new(format!("{}:after-a-refused-argument", v.sig), format!("after a refused -perm argument on the same thread: {}", v.what), v.witness.clone())).collect();
        let mut r2 = res;
        r2.violations.clear();
        for v in renamed {
            // the known '-' finding shows here too: keep its signature so it stays known
            if v.sig.starts_with("C08:minus-clause-clears-complement") {
                r2.violate(Violation::new("C08:minus-clause-clears-complement", v.what, v.witness));
            } else {
                r2.violate(v);
            }
        }
        acc = acc.merge(r2);
    }
    // emitted comparisons
    let kinds = [PermKind::Equal, PermKind::AtLeast, PermKind::Any];
    acc = acc.merge(par_cases(4096 * 3, |i, acc| check_policy(kinds[(i % 3) as usize], (i / 3) as u32, false, acc)));
    // the same check as a direct neighbour of a -type test, in both orders and under OR
    acc = acc.merge(par_cases(512 * 3 * 3, |i, acc| {
        let ctx = 1 + (i % 3) as u8;
        let kind = kinds[((i / 3) % 3) as usize];
        let bits = ((i / 9) as u32 * 8 + (i % 7) as u32) & 0o7777;
        check_policy_in(kind, bits, false, ctx, acc);
    }));
    if ctx.tier == Tier::Thorough {
        let reps: Vec<u32> = (0..64).map(|k| (k * 65 + (k % 7) * 512) as u32 & 0o7777).collect();
        let items: Vec<(PermKind, u32)> = kinds.iter().flat_map(|k| reps.iter().map(move |b| (*k, *b))).collect();
        acc = acc.merge(par_items(&items, |(k, b), acc| check_policy(*k, *b, true, acc)));
    }
    acc.sample(json!({"arg": "u+rwx,g-w", "chmod_from_0": format!("{:04o}", apply_clause(apply_clause(0, 0o700, '+', 0o777), 0o070, '-', 0o222))}));
    let mut extra = serde_json::Map::new();
    extra.insert("reference_reachable_modes".into(), json!(reach));
    extra.insert("single_clauses".into(), json!(cl.len()));
    finish(
        ctx,
        acc,
        Finish {
            level: "model_checking",
            exhaustive: true,
            rule: "octal: every value x spelling x prefix; symbolic: the clause fold is a transition system on the 512 rwx modes: BFS over reference-reachable modes, each reached by a witness clause list confirmed against the real parser, and from every state every one of the 315 clauses is applied through the real parser and compared with chmod's algebra (all state x transition pairs); the emitted comparison for every (check kind, 12-bit mode) is executed by the runtime model on modes differing in each single bit, for three file types; distinct = distinct modes produced".into(),
            bound: format!("4096 octal values x (3|4 digits) x 3 prefixes; all 28672 five-digit values above 07777 x 3 prefixes (must be refused); 315 single clauses x 3 prefixes; all 99225 two-clause lists{}; clause lists of 7..257 clauses (4 strides x 3 starting points x 3 prefixes); {reach} reachable modes x 315 clauses; 3 check kinds x 4096 modes executed on 16 directed modes x 3 file types{}", if ctx.tier == Tier::Thorough { " under all three prefixes; all 91125 three-clause lists over 45 clauses" } else { " under all three prefixes" }, if ctx.tier == Tier::Thorough { "; 192 checks executed on all 4096 modes x 3 types" } else { "" }),
            assumptions: vec![
                "chmod(1) algebra from mode 0 for the supported clause subset [ugoa]+[+-=][rwx]+".into(),
                "-perm /000 is judged by the rule as stated ('/' = any given bit set: no bit given, no file matches)".into(),
            ],
            extra,
        },
    )
}

pub fn replay(w: &Value) -> Vec<Violation> {
    if w["kind"] == "perm-tree" {
        let mut acc = Acc::new();
        if let Ok(tree) = serde_json::from_value::<Expr>(w["tree"].clone()) {
            let modes: Vec<u32> = w["modes"].as_array().map(|a| a.iter().filter_map(|m| m.as_u64().map(|m| m as u32)).collect()).unwrap_or_default();
            check_tree_policy(&tree, &modes, w["family"].as_str().unwrap_or("two-checks"), &mut acc);
        }
        return acc.violations.into_values().map(|(v, _)| v).collect();
    }
    let mut acc = Acc::new();
    if w["kind"] == "perm-policy" {
        let kind = match w["check"].as_str() {
            Some("AtLeast") => PermKind::AtLeast,
            Some("Any") => PermKind::Any,
            _ => PermKind::Equal,
        };
        check_policy_in(kind, w["bits"].as_u64().unwrap_or(0) as u32, true, w["context"].as_u64().unwrap_or(0) as u8, &mut acc);
    } else if let Some(arg) = w["arg"].as_str() {
        let (prefix, body) = if let Some(r) = arg.strip_prefix('-') {
            ("-", r)
        } else if let Some(r) = arg.strip_prefix('/') {
            ("/", r)
        } else {
            ("", arg)
        };
        if body.chars().all(|c| c.is_ascii_digit()) {
            check_octal(prefix, body, u32::from_str_radix(body, 8).unwrap_or(0), &mut acc);
        } else {
            let parts: Vec<Clause> = body
                .split(',')
                .filter_map(|t| speclib::textspec::clause(t).map(|(who, op, perm)| Clause { text: t.to_string(), who, op, perm }))
                .collect();
            check_list(prefix, &parts.iter().collect::<Vec<_>>(), &mut acc);
        }
    }
    acc.violations.into_values().map(|(v, _)| v).collect()
}
