//! C02 — the compiled policy means what the expression means (DESIGN.md §4 C02).
use crate::policy::{embedded_clocks, observe_forms};
use crate::subject::{compile_render, parse_real, C, P};
use crate::{conv, subject};
use serde_json::{json, Value};
use speclib::ast::*;
use speclib::directed::directed;
use speclib::eval::{self, coalesce, inexpressible};
use speclib::report::{finish, panic_site, par_cases, par_items, Acc, Ctx, Finish, Tier, Violation};
use speclib::scm::reader::read_all;
use speclib::trees::{self, negation_variants};
use speclib::words::{expr_words, ParenStyle};

pub fn supported_fields() -> Vec<Field> {
    vec![
        Field::Percent,
        Field::Access,
        Field::AccessFmt('@'),
        Field::AccessFmt('Y'),
        Field::DiskBlocks,
        Field::Change,
        Field::ChangeFmt('@'),
        Field::ChangeFmt('H'),
        Field::Basename,
        Field::Group,
        Field::GroupId,
        Field::Parents,
        Field::StartingPoint,
        Field::Inode,
        Field::DiskKilos,
        Field::PermOctal,
        Field::Hardlinks,
        Field::Name,
        Field::NameNoStart,
        Field::SizeBytes,
        Field::Sparseness,
        Field::Modify,
        Field::ModifyFmt('@'),
        Field::ModifyFmt('T'),
        Field::User,
        Field::UserId,
        Field::Type,
        Field::FileId,
        Field::ProjectId,
        Field::MirrorCount,
        Field::StripeCount,
        Field::StripeSize,
        Field::XAttr("tag".into()),
        Field::XAttr("missing".into()),
    ]
}

fn t(x: Test) -> Expr {
    Expr::Test(x)
}
fn a(x: Action) -> Expr {
    Expr::Action(x)
}
fn lit(s: &str) -> Fmt {
    Fmt::Lit(s.into())
}
const NL: Fmt = Fmt::Special(Special::Newline);

pub fn full_menu() -> Vec<Expr> {
    let mut m = vec![];
    let cmps = [Cmp::Eq, Cmp::Gt, Cmp::Lt];
    for c in cmps {
        for n in [0u64, 1, 2] {
            m.push(t(Test::Uid(c, n)));
            m.push(t(Test::Gid(c, n)));
            m.push(t(Test::Inum(c, n)));
            m.push(t(Test::Links(c, n)));
            m.push(t(Test::MirrorCount(c, n)));
            m.push(t(Test::StripeCount(c, n)));
        }
        for u in SizeUnit::ALL {
            m.push(t(Test::Size(c, 1, u)));
        }
        for n in [0u64, 2] {
            m.push(t(Test::Size(c, n, SizeUnit::Block)));
            m.push(t(Test::Size(c, n, SizeUnit::Byte)));
        }
        for u in TimeUnit::ALL {
            m.push(t(Test::ATime(c, 1, u)));
            m.push(t(Test::CTime(c, 1, u)));
            m.push(t(Test::MTime(c, 1, u)));
        }
        for n in [0u64, 2] {
            m.push(t(Test::ATime(c, n, TimeUnit::Day)));
            m.push(t(Test::CTime(c, n, TimeUnit::Day)));
            m.push(t(Test::MTime(c, n, TimeUnit::Day)));
        }
    }
    for ft in FType::ALL {
        m.push(t(Test::Type(vec![ft])));
    }
    m.push(t(Test::Type(vec![FType::File, FType::Dir])));
    m.push(t(Test::Type(vec![FType::Link, FType::Sock])));
    m.push(t(Test::Type(vec![FType::Block, FType::Char, FType::Pipe])));
    for k in [PermKind::Equal, PermKind::AtLeast, PermKind::Any] {
        for b in [0o644u32, 0o111, 0o4000, 0o7777, 0o020, 0] {
            m.push(t(Test::Perm(k, b)));
        }
    }
    for p in ["file.txt", "FILE.TXT", "*.txt", "f?le*", "[a-f]*", "dir/*", "отчёт*", "ΑΘΗΝΑ", "*.[0-9]", "Ünï?", "\\[draft", "\\*", "\\**", "a**b", "a*b", "[abc", "x\\?", "f", "q\"r", "a\\b", "it's"] {
        m.push(t(Test::Name(p.into())));
        m.push(t(Test::IName(p.into())));
        m.push(t(Test::Path(p.into())));
        m.push(t(Test::IPath(p.into())));
    }
    m.push(t(Test::Pool("flash".into())));
    m.push(t(Test::Pool("other".into())));
    m.push(t(Test::Xattr("user.tag".into())));
    m.push(t(Test::Xattr("nope".into())));
    m.push(t(Test::XattrMatch("user.tag".into(), "blue".into())));
    m.push(t(Test::XattrMatch("user.*".into(), "bl*".into())));
    m.push(t(Test::XattrMatch("user.tag".into(), "red".into())));
    m.push(t(Test::XattrMatch("user.*".into(), "blue".into())));
    m.push(t(Test::XattrMatch("user.tag".into(), "bl*".into())));
    m.push(t(Test::XattrMatch("user.tag".into(), "b?ue".into())));
    m.push(t(Test::XattrMatch("[u]ser.tag".into(), "blue".into())));
    for x in [Test::Empty, Test::Executable, Test::Readable, Test::Writable, Test::True, Test::False] {
        m.push(t(x));
    }
    for x in [Action::Print, Action::Print0, Action::FPrint("f".into()), Action::FPrint("g".into()), Action::FPrint0("f".into()), Action::PrintFid, Action::Quit] {
        m.push(a(x));
    }
    for f in supported_fields() {
        m.push(a(Action::Printf(vec![Fmt::Field(f), NL])));
    }
    for s in [
        Special::Alarm,
        Special::Backspace,
        Special::Form,
        Special::Newline,
        Special::CarriageReturn,
        Special::Tab,
        Special::VTab,
        Special::Null,
        Special::Backslash,
        Special::Ascii(65),
        Special::Ascii(10),
        Special::Ascii(0o176),
        Special::Clear,
    ] {
        m.push(a(Action::Printf(vec![lit("a"), Fmt::Special(s), lit("b"), NL])));
    }
    m.push(a(Action::Printf(vec![Fmt::Field(Field::Name)])));
    m.push(a(Action::Printf(vec![Fmt::Field(Field::Name), NL, NL])));
    m.push(a(Action::Printf(vec![Fmt::Field(Field::Name), NL, NL, NL])));
    m.push(a(Action::Printf(vec![Fmt::Field(Field::Name), lit("\\n")])));
    m.push(a(Action::Printf(vec![Fmt::Field(Field::Name), lit("\n")])));
    m.push(a(Action::Printf(vec![Fmt::Field(Field::Name), Fmt::Special(Special::Ascii(0o12))])));
    m.push(a(Action::Printf(vec![Fmt::Field(Field::Name), Fmt::Special(Special::Ascii(0o14))])));
    m.push(a(Action::Printf(vec![Fmt::Field(Field::Name), Fmt::Special(Special::Form)])));
    m.push(a(Action::FPrintf("f".into(), vec![Fmt::Field(Field::Name), NL, NL])));
    m.push(a(Action::Printf(vec![lit("x")])));
    m.push(a(Action::Printf(vec![lit("100%"), Fmt::Field(Field::Percent), lit(" ~a ~~ "), NL])));
    m.push(a(Action::Printf(vec![Fmt::Field(Field::Name), lit(" "), Fmt::Field(Field::SizeBytes), lit(" "), Fmt::Field(Field::UserId), NL])));
    m.push(a(Action::FPrintf("f".into(), vec![Fmt::Field(Field::NameNoStart), NL])));
    m.push(a(Action::FPrintf("g".into(), vec![Fmt::Field(Field::Name)])));
    m
}

pub fn mid_menu() -> Vec<Expr> {
    vec![
        t(Test::Uid(Cmp::Eq, 1001)),
        t(Test::Uid(Cmp::Gt, 1)),
        t(Test::Gid(Cmp::Lt, 2)),
        t(Test::Links(Cmp::Eq, 4)),
        t(Test::Inum(Cmp::Gt, 0)),
        t(Test::StripeCount(Cmp::Eq, 3)),
        t(Test::MirrorCount(Cmp::Lt, 1)),
        t(Test::Size(Cmp::Eq, 6, SizeUnit::Kilo)),
        t(Test::Size(Cmp::Gt, 1, SizeUnit::Block)),
        t(Test::Size(Cmp::Lt, 2, SizeUnit::Mega)),
        t(Test::Size(Cmp::Eq, 0, SizeUnit::Byte)),
        t(Test::ATime(Cmp::Lt, 2, TimeUnit::Day)),
        t(Test::MTime(Cmp::Gt, 1, TimeUnit::Hour)),
        t(Test::CTime(Cmp::Eq, 0, TimeUnit::Min)),
        t(Test::ATime(Cmp::Eq, 100000, TimeUnit::Sec)),
        t(Test::Type(vec![FType::File])),
        t(Test::Type(vec![FType::Dir, FType::Link])),
        t(Test::Perm(PermKind::Equal, 0o644)),
        t(Test::Perm(PermKind::AtLeast, 0o111)),
        t(Test::Perm(PermKind::Any, 0o020)),
        t(Test::Name("file.txt".into())),
        t(Test::IName("FILE.TXT".into())),
        t(Test::Name("*.txt".into())),
        t(Test::Path("dir/*".into())),
        t(Test::IPath("DIR/*".into())),
        t(Test::Pool("flash".into())),
        t(Test::Xattr("user.tag".into())),
        t(Test::XattrMatch("user.tag".into(), "blue".into())),
        t(Test::XattrMatch("user.*".into(), "bl*".into())),
        t(Test::Empty),
        t(Test::Executable),
        t(Test::Readable),
        t(Test::Writable),
        t(Test::True),
        t(Test::False),
        a(Action::Print),
        a(Action::Print0),
        a(Action::FPrint("f".into())),
        a(Action::FPrint("g".into())),
        a(Action::FPrint0("f".into())),
        a(Action::PrintFid),
        a(Action::Quit),
        a(Action::Printf(vec![Fmt::Field(Field::Name), NL])),
        a(Action::Printf(vec![Fmt::Field(Field::Name)])),
        a(Action::Printf(vec![Fmt::Field(Field::SizeBytes), lit(" "), Fmt::Field(Field::UserId), NL])),
        a(Action::FPrintf("f".into(), vec![Fmt::Field(Field::NameNoStart), NL])),
        a(Action::FPrintf("g".into(), vec![Fmt::Field(Field::Name)])),
        a(Action::Printf(vec![lit("a"), Fmt::Special(Special::Tab), lit("b"), NL])),
    ]
}

pub fn core16() -> Vec<Expr> {
    vec![
        t(Test::Uid(Cmp::Eq, 1001)),
        t(Test::Size(Cmp::Gt, 1, SizeUnit::Kilo)),
        t(Test::MTime(Cmp::Lt, 1, TimeUnit::Day)),
        t(Test::Type(vec![FType::File])),
        t(Test::Perm(PermKind::AtLeast, 0o400)),
        t(Test::Name("*.txt".into())),
        t(Test::IName("FILE.TXT".into())),
        t(Test::Pool("flash".into())),
        t(Test::Xattr("user.tag".into())),
        t(Test::True),
        t(Test::False),
        a(Action::Print),
        a(Action::Printf(vec![Fmt::Field(Field::Name), NL])),
        a(Action::FPrint("f".into())),
        a(Action::Print0),
        a(Action::Quit),
    ]
}

pub fn core8() -> Vec<Expr> {
    vec![
        t(Test::True),
        t(Test::False),
        t(Test::Uid(Cmp::Eq, 1001)),
        t(Test::Name("*.txt".into())),
        a(Action::Print),
        a(Action::FPrint("f".into())),
        a(Action::Quit),
        a(Action::Printf(vec![Fmt::Field(Field::SizeBytes), NL])),
    ]
}

pub fn leaf_kind(e: &Expr) -> String {
    let d = match e {
        Expr::Test(t) => format!("{t:?}"),
        Expr::Action(a) => format!("{a:?}"),
        o => o.show(),
    };
    d.split(|c: char| c == '(' || c == ' ').next().unwrap_or("?").to_string()
}

fn has_print_fid(e: &Expr) -> bool {
    let mut f = false;
    e.visit_leaves(&mut |l| f |= matches!(l, Expr::Action(Action::PrintFid)));
    f
}

fn unix_now() -> u64 {
    std::time::SystemTime::now().duration_since(std::time::UNIX_EPOCH).map(|d| d.as_secs()).unwrap_or(0)
}

/// Translation validation after a history on the same thread: a compile that is refused part-way
/// (a time test before the refused construct), a compile that succeeds, a pause, then the tree
/// under validation.  The reference has no history, so every disagreement is the subject's.
fn histories() -> Acc {
    let t = |x: Test| Expr::Test(x);
    let a = |x: Action| Expr::Action(x);
    let refused = vec![
        Expr::and(t(Test::MTime(Cmp::Lt, 5, TimeUnit::Min)), t(Test::User("alice".into()))),
        Expr::and(t(Test::MTime(Cmp::Gt, 30, TimeUnit::Day)), a(Action::Ls)),
        Expr::or(t(Test::ATime(Cmp::Eq, 1, TimeUnit::Min)), t(Test::Regex("x".into()))),
        Expr::and(t(Test::User("alice".into())), t(Test::MTime(Cmp::Lt, 5, TimeUnit::Min))),
        Expr::and(Expr::and(t(Test::Name("a".into())), a(Action::FPrint("o".into()))), a(Action::Prune)),
        a(Action::Printf(vec![Fmt::Field(Field::AccessFmt('T')), Fmt::Special(Special::Newline)])),
    ];
    let accepted = vec![
        Expr::and(t(Test::CTime(Cmp::Gt, 2, TimeUnit::Min)), a(Action::FPrint("p".into()))),
        t(Test::Size(Cmp::Lt, 7, SizeUnit::Kilo)),
        Expr::and(t(Test::Name("z*".into())), a(Action::Print0)),
    ];
    let targets = vec![
        Expr::and(t(Test::MTime(Cmp::Lt, 5, TimeUnit::Min)), t(Test::Uid(Cmp::Eq, 1001))),
        Expr::or(t(Test::ATime(Cmp::Gt, 1, TimeUnit::Day)), t(Test::CTime(Cmp::Eq, 3333, TimeUnit::Min))),
        Expr::and(t(Test::Name("file*".into())), a(Action::FPrint("out".into()))),
        Expr::and(t(Test::IName("F*".into())), a(Action::Printf(vec![Fmt::Field(Field::Name), Fmt::Special(Special::Newline)]))),
        Expr::and(t(Test::Perm(PermKind::AtLeast, 0o600)), a(Action::Print)),
    ];
    let mut hists: Vec<Vec<(u8, usize)>> = vec![];
    // (kind, index): 0 = refused compile, 1 = accepted compile, 2 = pause of 1.1 s
    for r in 0..refused.len() {
        hists.push(vec![(0, r), (2, 0)]);
        hists.push(vec![(0, r)]);
        for s in 0..accepted.len() {
            hists.push(vec![(1, s), (0, r), (2, 0)]);
            hists.push(vec![(0, r), (2, 0), (1, s)]);
        }
    }
    for s in 0..accepted.len() {
        hists.push(vec![(1, s), (2, 0)]);
        hists.push(vec![(1, s), (1, (s + 1) % accepted.len())]);
    }
    let handles: Vec<_> = hists
        .into_iter()
        .map(|h| {
            let (refused, accepted, targets) = (refused.clone(), accepted.clone(), targets.clone());
            std::thread::Builder::new()
                .stack_size(64 << 20)
                .spawn(move || {
                    let mut acc = Acc::new();
                    let opts = subject::options(false, None);
                    for target in &targets {
                        let mut told = vec![];
                        for (k, i) in &h {
                            match k {
                                0 | 1 => {
                                    let e = if *k == 0 { &refused[*i] } else { &accepted[*i] };
                                    if let Some(real) = conv::expr_to_real(e) {
                                        let r = compile_render(&real, &opts, "/dev/h");
                                        told.push(format!("compile({}) -> {}", e.show(), match r { C::Ok(_) => "ok", C::Err(_) => "refused", C::Panic(_) => "panic" }));
                                    }
                                }
                                _ => {
                                    std::thread::sleep(std::time::Duration::from_millis(1100));
                                    told.push("pause 1.1 s".into());
                                }
                            }
                        }
                        let Some(real) = conv::expr_to_real(target) else { continue };
                        acc.states += 1;
                        acc.transitions += h.len() as u64 + 1;
                        acc.count("histories", 1);
                        match validate(target, &real, &mut acc) {
                            Ok(_) => acc.validated += 1,
                            Err(m) => acc.violate(Violation::new(
                                format!("C02:{}:after-a-history", m.aspect),
                                format!("{} compiled after [{}] on the same thread: {}", target.show(), told.join("; "), m.detail),
                                json!({"kind": "history", "history": told, "tree": target}),
                            )),
                        }
                    }
                    acc
                })
                .unwrap()
        })
        .collect();
    let mut acc = Acc::new();
    for h in handles {
        if let Ok(a) = h.join() {
            acc = acc.merge(a);
        }
    }
    acc
}

#[derive(Debug)]
pub struct Mismatch {
    pub aspect: &'static str,
    pub detail: String,
}

/// Compile `tree` (already a real tree) and compare the emitted policy with the reference on
/// the directed record set.  Ok(number of records compared, both truth values seen).
pub fn validate(tree: &Expr, real: &lipe_find_parser::ast::Expression, acc: &mut Acc) -> Result<(usize, bool), Mismatch> {
    let opts = subject::options(false, None);
    let mut attempt = 0;
    let (forms, io, now) = loop {
        let t0 = unix_now();
        let (text, io) = match compile_render(real, &opts, "/dev/mdt0") {
            C::Ok(v) => v,
            C::Err(e) => {
                if eval_clear(tree) {
                    // a format containing \c may be refused (C12's table allows either)
                    acc.skip("format with \\c refused by compile");
                    return Ok((0, false));
                }
                return Err(Mismatch { aspect: "supported-tree-refused", detail: format!("compile failed: {e}") });
            }
            C::Panic(p) => return Err(Mismatch { aspect: "compile-panic", detail: format!("compile panicked: {}", panic_site(&p)) }),
        };
        let forms = match read_all(&text) {
            Ok(f) => f,
            Err(e) => return Err(Mismatch { aspect: "program-unreadable", detail: format!("{e}; program: {text}") }),
        };
        let mut clocks = embedded_clocks(&forms);
        clocks.dedup();
        match clocks.len() {
            0 => break (forms, io, 1_700_000_000u64),
            1 => {
                // 'now' in the policy is the moment of this compile call (find: the moment it started)
                let t1 = unix_now();
                if (clocks[0] < t0 || clocks[0] > t1) && t0 <= t1 {
                    return Err(Mismatch { aspect: "embedded-now-outside-the-compile-call", detail: format!("the policy's time tests use now={} but compile() was called between {t0} and {t1}", clocks[0]) });
                }
                break (forms, io, clocks[0]);
            }
            _ => {
                attempt += 1;
                if attempt > 5 {
                    return Err(Mismatch { aspect: "clock-readings-disagree", detail: format!("time tests of one compile embed different seconds repeatedly: {clocks:?}") });
                }
            }
        }
    };
    // find adds an implicit -print when the expression contains no action
    let effective = if tree.has_action() { tree.clone() } else { Expr::and(tree.clone(), Expr::Action(Action::DefaultPrint)) };
    // only records on which the expression is defined take part
    let mut records = vec![];
    let mut wants = vec![];
    for r in directed(tree, now) {
        match eval::eval(&effective, &r, now) {
            Ok(w) => {
                records.push(r);
                wants.push(w);
            }
            Err(u) => acc.skip(u.0),
        }
    }
    let obs = match observe_forms(&forms, &io, &records) {
        Ok(o) => o,
        Err(e) => return Err(Mismatch { aspect: "policy-runtime-failure", detail: e }),
    };
    if !obs.stray.is_empty() {
        return Err(Mismatch { aspect: "output-outside-any-file", detail: format!("{:?}", obs.stray) });
    }
    let framed_expected = tree.needs_framing();
    if io.is_some() != framed_expected {
        return Err(Mismatch { aspect: "mode-choice", detail: format!("destination table present = {}, framing needed = {}", io.is_some(), framed_expected) });
    }
    let (mut saw_t, mut saw_f) = (false, false);
    let mut compared = 0;
    for (i, r) in records.iter().enumerate() {
        let want = &wants[i];
        compared += 1;
        let got = &obs.records[i];
        match want.truth {
            Some(true) => saw_t = true,
            Some(false) => saw_f = true,
            None => {}
        }
        if !got.unframed.is_empty() {
            let only_fid = has_print_fid(tree) && got.unframed.iter().all(|u| *u == format!("{}\n", r.fid));
            return Err(Mismatch {
                aspect: if only_fid { "unframed-write-in-framed-mode:print-file-fid" } else { "unframed-write-in-framed-mode" },
                detail: format!("record {i}: bytes {:?} written to the shared port outside any frame", got.unframed),
            });
        }
        if got.stopped != want.stopped {
            return Err(Mismatch { aspect: "stop-request", detail: format!("record {i} ({}): policy stop={} reference stop={}", brief(r), got.stopped, want.stopped) });
        }
        if !want.stopped && got.truth != want.truth {
            return Err(Mismatch { aspect: "truth-value", detail: format!("record {i} ({}): policy yields {:?}, find's rules yield {:?}", brief(r), got.truth, want.truth) });
        }
        let (g, w) = (coalesce(&got.events), coalesce(&want.events));
        if g != w {
            return Err(Mismatch { aspect: "output", detail: format!("record {i} ({}): policy wrote {g:?}, find's rules write {w:?}", brief(r)) });
        }
        acc.outcome(&(g, got.truth, got.stopped));
    }
    Ok((compared, saw_t && saw_f))
}

fn eval_clear(e: &Expr) -> bool {
    let mut f = false;
    e.visit_leaves(&mut |l| {
        if let Expr::Action(Action::Printf(x)) | Expr::Action(Action::FPrintf(_, x)) = l {
            f |= x.iter().any(|e| matches!(e, Fmt::Special(Special::Clear)));
        }
    });
    f
}

fn brief(r: &speclib::record::Record) -> String {
    format!("uid={} gid={} ino={} nlink={} size={} mode={:o} name={:?} rel={:?} atime={} mtime={} ctime={}", r.uid, r.gid, r.ino, r.nlink, r.size, r.mode, r.name, r.rel_path, r.atime, r.mtime, r.ctime)
}

/// Smallest subtree that still disagrees (leaf first, then operator nodes bottom-up).
fn blame(tree: &Expr, aspect: &str, acc: &mut Acc) -> String {
    fn subtrees<'a>(e: &'a Expr, out: &mut Vec<&'a Expr>) {
        match e {
            Expr::Not(a) | Expr::Prec(a) => subtrees(a, out),
            Expr::And(a, b) | Expr::Or(a, b) | Expr::List(a, b) => {
                subtrees(a, out);
                subtrees(b, out);
            }
            _ => {}
        }
        out.push(e);
    }
    let mut subs = vec![];
    subtrees(tree, &mut subs);
    subs.sort_by_key(|s| (s.leaves(), s.depth()));
    for s in subs {
        if std::ptr::eq(s, tree) {
            continue;
        }
        let real = match conv::expr_to_real(s) {
            Some(r) => r,
            None => continue,
        };
        acc.count("disagreements_rechecked", 1);
        let mut scratch = Acc::new();
        if let Err(m) = validate(s, &real, &mut scratch) {
            if m.aspect == aspect {
                return match s {
                    Expr::Test(_) | Expr::Action(_) => format!("leaf:{}", leaf_kind(s)),
                    Expr::Not(_) => "op:not".into(),
                    Expr::And(..) => "op:and".into(),
                    Expr::Or(..) => "op:or".into(),
                    Expr::List(..) => "op:list".into(),
                    _ => "op:other".into(),
                };
            }
        }
    }
    match tree {
        Expr::Test(_) | Expr::Action(_) => format!("leaf:{}", leaf_kind(tree)),
        Expr::Not(_) => "op:not".into(),
        Expr::And(..) => "op:and".into(),
        Expr::Or(..) => "op:or".into(),
        Expr::List(..) => "op:list".into(),
        _ => "whole-tree".into(),
    }
}

pub fn check_tree(tree: &Expr, text_route: bool, acc: &mut Acc) {
    if tree.depth() > 20 {
        speclib::report::enter_case(|| format!("tree of depth {} with {} leaves: {}…", tree.depth(), tree.leaves(), tree.show().chars().take(120).collect::<String>()));
    }
    acc.states += 1;
    acc.transitions += 1;
    acc.count("programs", 1);
    if !inexpressible(tree).is_empty() {
        acc.skip("tree with an inexpressible construct (C12's subject)");
        return;
    }
    let real = match conv::expr_to_real(tree) {
        Some(r) => r,
        None => {
            acc.skip("tree not representable in the subject's types");
            return;
        }
    };
    let mut routes: Vec<(&str, lipe_find_parser::ast::Expression)> = vec![("constructors", real)];
    if text_route {
        if let Some(w) = expr_words(tree, ParenStyle::Minimal, None, "-o") {
            let input = w.join(" ");
            if let P::Ok(_, e) = parse_real(&input) {
                if &conv::expr(&e) == tree {
                    routes.push(("text", e));
                    acc.count("text_route", 1);
                } else if let speclib::textspec::Spec::Accept { tree: read, .. } = speclib::textspec::parse(&input) {
                    // the words do not spell this tree back (or the parser read them differently):
                    // the parsed expression is validated against the reference reading of the text
                    // (a keyword mapped to a neighbouring node shows up as a semantic difference)
                    if inexpressible(&read).is_empty() {
                        acc.count("text_route_reference_reading", 1);
                        if let Err(m) = validate(&read, &e, acc) {
                            acc.violate(Violation::new(
                                format!("C02:{}:text-route", m.aspect),
                                format!("{input:?} (reference reading {}): {}", read.show(), m.detail),
                                json!({"kind": "text", "input": input}),
                            ));
                        }
                    }
                }
            }
        }
    }
    for (route, real) in routes {
        match validate(tree, &real, acc) {
            Ok((n, both)) => {
                acc.validated += 1;
                acc.count("record_evaluations", n as u64);
                if both {
                    acc.count("trees_with_both_truth_values", 1);
                }
            }
            Err(m) => {
                acc.count("disagreements_rechecked", 1);
                // re-run in isolation before reporting
                let mut scratch = Acc::new();
                let again = validate(tree, &real, &mut scratch);
                if again.is_ok() {
                    acc.violate(Violation::new("C02:non-deterministic-disagreement", format!("{}: {} — did not reproduce", tree.show(), m.detail), json!({"kind":"tree","tree":tree})));
                    continue;
                }
                let sig = if m.aspect.starts_with("unframed-write-in-framed-mode") {
                    format!("C02:{}", m.aspect)
                } else {
                    format!("C02:{}:{}", m.aspect, blame(tree, m.aspect, acc))
                };
                acc.violate(Violation::new(
                    sig,
                    format!("{} [{route} route]: {}", tree.show(), m.detail),
                    json!({"kind": "tree", "tree": tree, "text_route": text_route}),
                ));
            }
        }
    }
    if acc.samples.len() < 6 && tree.leaves() == 2 {
        acc.sample(json!({"tree": tree.show()}));
    }
}

fn all_trees_exact(n: usize, menu: &[Expr], negations: bool, text_route: bool) -> Acc {
    let shapes = trees::shapes(n);
    let total = trees::count(n, menu.len() as u64);
    par_cases(total, |i, acc| {
        let tree = trees::nth(&shapes, n, menu, i);
        if negations {
            for v in negation_variants(&tree) {
                check_tree(&v, text_route, acc);
            }
        } else {
            check_tree(&tree, text_route, acc);
        }
    })
}

/// Trees with n leaves where exactly one position ranges over `wide` and the others over `core`.
fn one_wide(n: usize, wide: &[Expr], core: &[Expr]) -> Acc {
    let shapes = trees::shapes(n);
    let per = trees::count(n, core.len() as u64); // used to enumerate shapes/ops/core leaves
    let total = per * wide.len() as u64 * n as u64;
    par_cases(total, |i, acc| {
        let pos = (i % n as u64) as usize;
        let w = ((i / n as u64) % wide.len() as u64) as usize;
        let rest = i / (n as u64 * wide.len() as u64);
        let base = trees::nth(&shapes, n, core, rest);
        // replace the pos-th leaf
        let mut k = 0;
        let tree = replace_leaf(&base, pos, &wide[w], &mut k);
        check_tree(&tree, false, acc);
    })
}

fn replace_leaf(e: &Expr, pos: usize, with: &Expr, k: &mut usize) -> Expr {
    match e {
        Expr::And(a, b) => {
            let l = replace_leaf(a, pos, with, k);
            Expr::and(l, replace_leaf(b, pos, with, k))
        }
        Expr::Or(a, b) => {
            let l = replace_leaf(a, pos, with, k);
            Expr::or(l, replace_leaf(b, pos, with, k))
        }
        Expr::List(a, b) => {
            let l = replace_leaf(a, pos, with, k);
            Expr::list(l, replace_leaf(b, pos, with, k))
        }
        Expr::Not(a) => Expr::not(replace_leaf(a, pos, with, k)),
        leaf => {
            let r = if *k == pos { with.clone() } else { leaf.clone() };
            *k += 1;
            r
        }
    }
}

pub fn run(ctx: &Ctx) -> i32 {
    let full = full_menu();
    let mid = mid_menu();
    let c16 = core16();
    let c8 = core8();
    let mut acc = Acc::new();
    let mut bound = vec![];
    // every full-menu leaf alone, negated, and followed by -print
    let singles: Vec<Expr> = full
        .iter()
        .flat_map(|l| vec![l.clone(), Expr::not(l.clone()), Expr::and(l.clone(), a(Action::Print)), Expr::or(l.clone(), a(Action::Print)), Expr::prec(l.clone())])
        .collect();
    acc = acc.merge(par_items(&singles, |e, acc| check_tree(e, true, acc)));
    bound.push(format!("{} leaf instances alone / negated / before -print / parenthesised", full.len()));
    match ctx.tier {
        Tier::Quick => {
            acc = acc.merge(all_trees_exact(2, &mid, true, true));
            bound.push(format!("all 2-leaf trees over {} leaves x 3 operators x negation of each operand and of the root", mid.len()));
            acc = acc.merge(all_trees_exact(2, &full, false, false));
            bound.push(format!("all 2-leaf trees over the full menu ({} leaves) x 3 operators", full.len()));
            acc = acc.merge(all_trees_exact(3, &c16, false, false));
            bound.push("all 3-leaf trees over a 16-leaf core".into());
            acc = acc.merge(all_trees_exact(3, &c8, true, false));
            bound.push("all 3-leaf trees over an 8-leaf core with every negation of leaves and root".into());
        }
        Tier::Thorough => {
            acc = acc.merge(all_trees_exact(2, &full, true, true));
            bound.push(format!("all 2-leaf trees over the full menu ({} leaves) x operators x negations", full.len()));
            acc = acc.merge(all_trees_exact(3, &c16, true, false));
            bound.push("all 3-leaf trees over a 16-leaf core with negation variants".into());
            acc = acc.merge(one_wide(3, &full, &c16));
            bound.push("3-leaf trees with one full-menu leaf in every position, others over the core".into());
            acc = acc.merge(all_trees_exact(4, &c8, false, false));
            bound.push("all 4-leaf trees over an 8-leaf core".into());
        }
    }
    // large programs: k clauses, each with its own matcher and printer (identifier numbers, frame
    // tags and table keys grow with k); every clause's output is checked on records aimed at it
    let ks: Vec<usize> = match ctx.tier {
        Tier::Quick => (1..=40).chain([64, 65, 100, 128, 129]).collect(),
        Tier::Thorough => (1..=300).collect(),
    };
    let mut larges = vec![];
    for &k in &ks {
        let fold = |items: Vec<Expr>| {
            let mut it = items.into_iter();
            let mut acc = it.next().unwrap();
            for e in it {
                acc = Expr::or(acc, e);
            }
            acc
        };
        larges.push(fold((0..k).map(|i| Expr::and(t(Test::Name(format!("n{i}"))), a(Action::FPrint(format!("f{i}"))))).collect()));
        larges.push(fold((0..k).map(|i| Expr::and(t(Test::IName(format!("N{i}*"))), a(if i % 2 == 0 { Action::Print } else { Action::Printf(vec![Fmt::Field(Field::Name), lit(&format!(" {i}")), NL]) }))).collect()));
        larges.push(fold((0..k).map(|i| Expr::and(t(Test::Path(format!("p{i}/*"))), a(Action::FPrintf(format!("g{}", i / 2), vec![Fmt::Field(Field::NameNoStart), lit(&format!("#{i}"))])))).collect()));
    }
    acc = acc.merge(par_items(&larges, |e, acc| check_tree(e, false, acc)));
    acc = acc.merge(histories());
    bound.push("5 target trees validated after each of 50 same-thread histories (refused compile with a time test before/after the refused construct, accepted compile, pause of 1.1 s, in the orders that matter)".into());
    bound.push(format!("programs of {:?} clauses, each clause with its own matcher and printer (file / stdout / formatted), three families", ks));
    let mut extra = serde_json::Map::new();
    extra.insert("leaf_menu_sizes".into(), json!({"full": full.len(), "mid": mid.len(), "core16": c16.len(), "core8": c8.len()}));
    finish(
        ctx,
        acc,
        Finish {
            level: "translation_validation",
            exhaustive: true,
            rule: "program = expression tree (built through the public constructors and, for small trees, also printed to text and parsed) compiled by the real compile(); the emitted Scheme is executed by the runtime model on a record set directed at every constant of the tree and compared with the reference evaluation of find's rules: truth value, ordered output events per destination, stop request; distinct = distinct (output, truth, stop) observations".into(),
            bound: bound.join("; "),
            assumptions: vec![
                "model of the Guile reader/evaluator and of the (lipe)/(lipe find) procedures: DESIGN.md §3".into(),
                "attribute tables of harness/speclib/src/eval.rs (which record field each test/directive denotes)".into(),
                "the clock second embedded in the program is read back and used as 'now' on both sides".into(),
            ],
            extra,
        },
    )
}

pub fn replay(w: &Value) -> Vec<Violation> {
    let mut acc = Acc::new();
    if w["kind"] == "text" {
        let input = w["input"].as_str().unwrap_or("");
        if let (speclib::textspec::Spec::Accept { tree: read, .. }, P::Ok(_, e)) = (speclib::textspec::parse(input), parse_real(input)) {
            if let Err(m) = validate(&read, &e, &mut acc) {
                return vec![Violation::new(format!("C02:{}:text-route", m.aspect), format!("{input:?}: {}", m.detail), w.clone())];
            }
        }
        return vec![];
    }
    if w["kind"] == "history" {
        return histories().violations.into_values().map(|(v, _)| v).collect();
    }
    if let Ok(tree) = serde_json::from_value::<Expr>(w["tree"].clone()) {
        check_tree(&tree, w["text_route"].as_bool().unwrap_or(false), &mut acc);
    }
    acc.violations.into_values().map(|(v, _)| v).collect()
}
