//! C04 — the emitted program is well-formed Scheme and user text stays data (DESIGN.md §4 C04).
use crate::prog::Prog;
use crate::props::c02;
use crate::subject::{self, compile_handle, IoMap, C};
use crate::conv;
use serde_json::{json, Value};
use speclib::ast::*;
use speclib::report::{finish, panic_site, par_cases, Acc, Ctx, Finish, Violation};
use speclib::scm::reader::Node;

const ALPHA: [char; 15] = ['"', '\\', '~', '%', '(', ')', ';', '#', '\'', '\n', '\u{1}', 'é', ' ', 'a', '*'];

/// Strings that look like the placeholders a templating step might use: every name under which
/// the parts of a compiled program are known, in the usual placeholder notations.
fn dictionary() -> Vec<String> {
    let names = ["mdt", "policy", "policy_body", "body", "options", "modules", "definitions", "initialization", "init", "terminate", "fini", "device", "path", "io_map", "0", "1", ""];
    let mut v = vec![];
    for n in names {
        for (a, b) in [("{", "}"), ("{{", "}}"), ("${", "}"), ("$", ""), ("%", "%"), ("<", ">"), ("~", ""), ("@", "@")] {
            v.push(format!("{a}{n}{b}"));
            v.push(format!("x{a}{n}{b}y"));
        }
    }
    v.push("{:?}".into());
    v.push("(use-modules (lipe))".into());
    v.push("%lf3:print:2".into());
    v.push("#t".into());
    v.extend(crate::policy::harvest_fragments());
    v.sort();
    v.dedup();
    v
}
const MARK: &str = "qzq";

#[derive(Clone, Copy, Debug, PartialEq)]
enum Site {
    Name,
    IName,
    Path,
    IPath,
    Pool,
    Xattr,
    XattrMatchName,
    XattrMatchValue,
    FPrintFile,
    FPrint0File,
    FPrintfFile,
    PrintfLiteral,
    FPrintfLiteral,
    FormatXattrName,
    TimeSelector,
    Device,
    /// a file action to the right of an action that needs no framing (-print, a line-oriented
    /// -printf, -quit): the manager choice must still see the file action
    FPrintFileAfterPrint,
    FPrintfFileAfterPrintf,
    FPrint0FileAfterQuit,
    /// the same test sites inside a policy that uses framed output (the other manager)
    NameFramed,
    IPathFramed,
    PoolFramed,
    XattrMatchValueFramed,
    INameFramed,
    PathFramed,
    XattrFramed,
    XattrMatchNameFramed,
    /// the selector character of %Ck and %Tk (the %Ak site above has the same shape)
    ChangeSelector,
    ModifySelectorFile,
}

const SITES: [Site; 29] = [
    Site::ChangeSelector,
    Site::ModifySelectorFile,
    Site::INameFramed,
    Site::PathFramed,
    Site::XattrFramed,
    Site::XattrMatchNameFramed,
    Site::NameFramed,
    Site::IPathFramed,
    Site::PoolFramed,
    Site::XattrMatchValueFramed,
    Site::FPrintFileAfterPrint,
    Site::FPrintfFileAfterPrintf,
    Site::FPrint0FileAfterQuit,
    Site::Name,
    Site::IName,
    Site::Path,
    Site::IPath,
    Site::Pool,
    Site::Xattr,
    Site::XattrMatchName,
    Site::XattrMatchValue,
    Site::FPrintFile,
    Site::FPrint0File,
    Site::FPrintfFile,
    Site::PrintfLiteral,
    Site::FPrintfLiteral,
    Site::FormatXattrName,
    Site::TimeSelector,
    Site::Device,
];

fn nl() -> Fmt {
    Fmt::Special(Special::Newline)
}

/// The tree carrying `s` at the site (and a sibling so the surrounding program is not trivial).
fn tree(site: Site, s: &str) -> Option<Expr> {
    let t = |x: Test| Expr::and(Expr::Test(x), Expr::Action(Action::Print));
    let a = |x: Action| Expr::and(Expr::Test(Test::Name("sibling".into())), Expr::Action(x));
    Some(match site {
        Site::Name => t(Test::Name(s.into())),
        Site::IName => t(Test::IName(s.into())),
        Site::Path => t(Test::Path(s.into())),
        Site::IPath => t(Test::IPath(s.into())),
        Site::Pool => t(Test::Pool(s.into())),
        Site::Xattr => t(Test::Xattr(s.into())),
        Site::XattrMatchName => t(Test::XattrMatch(s.into(), "v".into())),
        Site::XattrMatchValue => t(Test::XattrMatch("n".into(), s.into())),
        Site::FPrintFile => a(Action::FPrint(s.into())),
        Site::FPrint0File => a(Action::FPrint0(s.into())),
        Site::FPrintfFile => a(Action::FPrintf(s.into(), vec![Fmt::Field(Field::Name), nl()])),
        Site::PrintfLiteral => a(Action::Printf(vec![Fmt::Field(Field::UserId), Fmt::Lit(s.into()), Fmt::Field(Field::GroupId), nl()])),
        Site::FPrintfLiteral => a(Action::FPrintf("f".into(), vec![Fmt::Lit(s.into()), Fmt::Field(Field::Name)])),
        Site::FormatXattrName => a(Action::Printf(vec![Fmt::Field(Field::XAttr(s.into())), nl()])),
        Site::TimeSelector => {
            let mut cs = s.chars();
            let c = cs.next()?;
            if cs.next().is_some() {
                return None; // the selector is a single character
            }
            a(Action::Printf(vec![Fmt::Field(Field::AccessFmt(c)), nl()]))
        }
        Site::Device => t(Test::Name("x".into())),
        Site::ChangeSelector | Site::ModifySelectorFile => {
            let mut cs = s.chars();
            let c = cs.next()?;
            if cs.next().is_some() {
                return None;
            }
            if site == Site::ChangeSelector {
                a(Action::Printf(vec![Fmt::Lit("t=".into()), Fmt::Field(Field::ChangeFmt(c)), nl()]))
            } else {
                a(Action::FPrintf("f".into(), vec![Fmt::Field(Field::ModifyFmt(c)), Fmt::Lit(" ".into()), Fmt::Field(Field::Name)]))
            }
        }
        Site::NameFramed => Expr::and(Expr::Test(Test::Name(s.into())), Expr::Action(Action::Print0)),
        Site::IPathFramed => Expr::and(Expr::Test(Test::IPath(s.into())), Expr::Action(Action::FPrint("f".into()))),
        Site::PoolFramed => Expr::and(Expr::Test(Test::Pool(s.into())), Expr::Action(Action::Print0)),
        Site::XattrMatchValueFramed => Expr::and(Expr::Test(Test::XattrMatch("n".into(), s.into())), Expr::Action(Action::Printf(vec![Fmt::Field(Field::Name)]))),
        Site::INameFramed => Expr::or(Expr::Test(Test::IName(s.into())), Expr::Action(Action::FPrint0("f".into()))),
        Site::PathFramed => Expr::and(Expr::Test(Test::Path(s.into())), Expr::Action(Action::FPrintf("f".into(), vec![Fmt::Field(Field::Name)]))),
        Site::XattrFramed => Expr::and(Expr::Test(Test::Xattr(s.into())), Expr::Action(Action::Print0)),
        Site::XattrMatchNameFramed => Expr::and(Expr::Test(Test::XattrMatch(s.into(), "v".into())), Expr::Action(Action::Print0)),
        Site::FPrintFileAfterPrint => Expr::and(Expr::and(Expr::Test(Test::Name("sibling".into())), Expr::Action(Action::Print)), Expr::Action(Action::FPrint(s.into()))),
        Site::FPrintfFileAfterPrintf => Expr::or(
            Expr::and(Expr::Test(Test::Name("sibling".into())), Expr::Action(Action::Printf(vec![Fmt::Field(Field::Name), nl()]))),
            Expr::Action(Action::FPrintf(s.into(), vec![Fmt::Field(Field::Name), nl()])),
        ),
        Site::FPrint0FileAfterQuit => Expr::List(Box::new(Expr::and(Expr::Test(Test::Name("sibling".into())), Expr::Action(Action::Quit))), Box::new(Expr::Action(Action::FPrint0(s.into())))),
    })
}

fn char_class(s: &str) -> &'static str {
    // the characters that matter most for Scheme text first, wherever they stand
    for c in s.chars() {
        match c {
            '"' => return "dquote",
            '\\' => return "backslash",
            '~' => return "tilde",
            '{' | '$' | '<' | '@' => return "placeholder-like",
            _ => {}
        }
    }
    for c in s.chars() {
        match c {
            '*' => return "glob",
            '%' => return "percent",
            '(' | ')' => return "paren",
            ';' => return "semicolon",
            '#' => return "hash",
            '\'' => return "squote",
            '\n' => return "newline",
            '\u{1}' => return "control",
            'é' => return "non-ascii",
            ' ' => return "space",
            _ => {}
        }
    }
    "plain"
}

struct Rendered {
    text: String,
    io: Option<IoMap>,
}

fn render(site: Site, s: &str) -> Result<Option<Rendered>, String> {
    let tree = match tree(site, s) {
        Some(t) => t,
        None => return Ok(None),
    };
    let real = conv::expr_to_real(&tree).ok_or("tree not representable")?;
    let h = match compile_handle(&real, &subject::options(false, None)) {
        C::Ok(h) => h,
        C::Err(e) => return Err(format!("compile error: {e}")),
        C::Panic(p) => return Err(format!("panic: {p}")),
    };
    let mdt = if site == Site::Device { s } else { "/dev/mdt0" };
    let text = h.scheme(mdt).map_err(|p| format!("panic: {p}"))?;
    let io = h.io_map().map_err(|p| format!("panic: {p}"))?;
    Ok(Some(Rendered { text, io }))
}

/// The benign baseline has the same "kind" of string as `s` for the one as-built design choice
/// that legitimately depends on the content (xattr-match switches primitive on a quote).
fn baseline_for(site: Site, s: &str) -> String {
    // glob characters legitimately select another matcher primitive, and for -xattr-match so does
    // a single quote: the benign string is of the same kind
    let glob = s.contains(|c| c == '*' || c == '?' || c == '[');
    match site {
        Site::TimeSelector | Site::ChangeSelector | Site::ModifySelectorFile => "Y".into(),
        Site::XattrMatchName | Site::XattrMatchValue | Site::XattrMatchValueFramed | Site::XattrMatchNameFramed if s.contains('\'') || glob => format!("{MARK}*"),
        Site::Name | Site::IName | Site::Path | Site::IPath | Site::NameFramed | Site::IPathFramed | Site::INameFramed | Site::PathFramed if glob => format!("{MARK}*"),
        _ => MARK.into(),
    }
}

fn expected_literal(site: Site, s: &str) -> String {
    match site {
        Site::TimeSelector | Site::ChangeSelector | Site::ModifySelectorFile => format!("%{s}"),
        _ => s.to_string(),
    }
}

fn strings_of(forms: &[Node]) -> Vec<String> {
    let mut v = vec![];
    for f in forms {
        let mut ns = vec![];
        f.strings(&mut ns);
        v.extend(ns.into_iter().map(|n| n.as_str().unwrap().to_string()));
    }
    v
}

pub fn check(site: Site, s: &str, acc: &mut Acc) {
    acc.states += 1;
    acc.transitions += 1;
    acc.validated += 1;
    let sname = format!("{site:?}");
    let wit = || json!({"kind": "c04", "site": sname, "string": s});
    let viol = |acc: &mut Acc, what: &str, detail: String| {
        acc.violate(Violation::new(format!("C04:{what}:site={sname}:char={}", char_class(s)), format!("site {sname}, user string {s:?}: {detail}"), wit()));
    };
    let r = match render(site, s) {
        Ok(Some(r)) => r,
        Ok(None) => {
            acc.skip("string longer than the site allows");
            return;
        }
        Err(e) => {
            if e.starts_with("panic") {
                acc.violate(Violation::new(format!("C04:panic:{}", panic_site(&e[7..])), format!("site {sname}, string {s:?}: {e}"), wit()));
            } else {
                viol(acc, "refused", e);
            }
            return;
        }
    };
    let base_s = baseline_for(site, s);
    let b = match render(site, &base_s) {
        Ok(Some(b)) => b,
        _ => {
            acc.violate(Violation::new("C04:baseline-failed", format!("site {sname}: benign string {base_s:?} does not compile"), wit()));
            return;
        }
    };
    acc.count(&format!("char:{}", char_class(s)), 1);
    // (1) reads as exactly the two expected forms
    let p = match Prog::read(&r.text) {
        Ok(p) => p,
        Err(e) => {
            viol(acc, "unreadable", format!("the emitted text does not read as Scheme: {e}"));
            return;
        }
    };
    if let Err(e) = p.shape() {
        viol(acc, "structure-changed", format!("the emitted text is not the two expected forms: {e}"));
        return;
    }
    let pb = match Prog::read(&b.text).and_then(|p| p.shape().map(|_| p)) {
        Ok(p) => p,
        Err(e) => {
            acc.violate(Violation::new("C04:baseline-failed", format!("site {sname}: program for benign string {base_s:?}: {e}"), wit()));
            return;
        }
    };
    // (2) non-interference: same program around the string
    let sk: Vec<String> = p.forms.iter().map(|f| f.skeleton()).collect();
    let skb: Vec<String> = pb.forms.iter().map(|f| f.skeleton()).collect();
    acc.outcome(&(sname.clone(), sk.clone()));
    if sk != skb {
        viol(acc, "structure-changed", format!("program structure differs from the one for a benign string:\n  got  {}\n  want {}", sk.join(" "), skb.join(" ")));
        return;
    }
    // (3) the literal at the site decodes to exactly the user string
    let is_file_site = matches!(site, Site::FPrintFile | Site::FPrint0File | Site::FPrintfFile | Site::FPrintFileAfterPrint | Site::FPrintfFileAfterPrintf | Site::FPrint0FileAfterQuit);
    let is_literal_site = matches!(site, Site::PrintfLiteral | Site::FPrintfLiteral);
    if is_file_site {
        // framed mode: the file name travels in the destination table, not in the program
        let names: Vec<Option<String>> = r.io.as_ref().map(|m| m.values().map(|v| v.0.clone()).collect()).unwrap_or_default();
        if !names.contains(&Some(s.to_string())) {
            viol(acc, "destination-differs", format!("destination table {:?} does not name the file {s:?}", r.io));
        }
        if r.text != b.text {
            // allowed only if the name is inside a string literal that decodes to it
            let (ss, sb) = (strings_of(&p.forms), strings_of(&pb.forms));
            let ok = ss.len() == sb.len() && ss.iter().zip(sb.iter()).all(|(x, y)| x == y || (y == &base_s && x == s));
            if !ok {
                viol(acc, "literal-differs", "file name appears in the program other than as a string literal decoding to it".into());
            }
        }
        return;
    }
    if is_literal_site {
        // literal format text: behavioural check (printed verbatim) through C02's validator
        let tree = tree(site, s).unwrap();
        let real = conv::expr_to_real(&tree).unwrap();
        let mut scratch = Acc::new();
        if let Err(m) = c02::validate(&tree, &real, &mut scratch) {
            viol(acc, "literal-not-verbatim", format!("{}: {}", m.aspect, m.detail));
        }
        return;
    }
    let (ss, sb) = (strings_of(&p.forms), strings_of(&pb.forms));
    let want = expected_literal(site, s);
    let wantb = expected_literal(site, &base_s);
    let mut seen = 0;
    for (x, y) in ss.iter().zip(sb.iter()) {
        if y == &wantb {
            seen += 1;
            if x != &want {
                viol(acc, "literal-differs", format!("the string literal at the site decodes to {x:?}, not to {want:?}"));
                return;
            }
        } else if x != y {
            viol(acc, "literal-differs", format!("an unrelated string literal changed from {y:?} to {x:?}"));
            return;
        }
    }
    if seen == 0 {
        viol(acc, "literal-missing", format!("no string literal of the program carries the user string (expected {want:?})"));
    }
    if s.len() <= 2 && acc.samples.len() < 6 {
        acc.sample(json!({"site": sname, "string": s, "literals": ss}));
    }
}

/// What a string-literal writer turns `s` into (each backslash doubled, each quote preceded by
/// a backslash): a user who *types* that text must get that text, not `s`.
fn escaped_form(s: &str) -> String {
    s.replace('\\', "\\\\").replace('"', "\\\"")
}

/// Two user strings in one expression, one spelling the escaped form of the other (a registry
/// keyed by escaped text must not confuse them): every pair of matcher sites, both orders, under
/// `-o`; each clause prints to its own file so the reference tells the two apart.
fn escaped_pairs() -> Acc {
    let mut strings: Vec<String> = vec!["\\".into(), "\"".into(), "a\\b".into(), "say\"hi".into(), "\\\"".into(), "x\\".into(), "\"\"".into(), "a\\\\b".into()];
    let more: Vec<String> = strings.iter().map(|s| escaped_form(s)).collect();
    strings.extend(more);
    strings.sort();
    strings.dedup();
    let sites = [Site::Name, Site::Path, Site::IName, Site::IPath];
    let mut cases = vec![];
    for s in &strings {
        let e = escaped_form(s);
        for a in sites {
            for b in sites {
                cases.push((a, s.clone(), b, e.clone()));
                cases.push((a, e.clone(), b, s.clone()));
            }
        }
    }
    par_cases(cases.len() as u64, |i, acc| {
        let (sa, a, sb, b) = &cases[i as usize];
        let leaf = |site: Site, s: &str| match site {
            Site::Name => Test::Name(s.into()),
            Site::Path => Test::Path(s.into()),
            Site::IName => Test::IName(s.into()),
            _ => Test::IPath(s.into()),
        };
        let tree = Expr::or(
            Expr::and(Expr::Test(leaf(*sa, a)), Expr::Action(Action::FPrint("first".into()))),
            Expr::and(Expr::Test(leaf(*sb, b)), Expr::Action(Action::FPrint("second".into()))),
        );
        acc.states += 1;
        acc.transitions += 1;
        acc.count("escaped_pairs", 1);
        let Some(real) = conv::expr_to_real(&tree) else { return };
        let wit = json!({"kind": "c04-pair", "tree": tree});
        // every user string is a literal of the program
        if let C::Ok(h) = compile_handle(&real, &subject::options(false, None)) {
            if let Ok(text) = h.scheme("/dev/mdt0") {
                match Prog::read(&text) {
                    Ok(p) => {
                        let ss = strings_of(&p.forms);
                        for s in [a, b] {
                            if !ss.contains(s) {
                                acc.violate(Violation::new(
                                    format!("C04:literal-missing:pair:char={}", char_class(s)),
                                    format!("{}: no string literal of the program decodes to the user string {s:?} (literals: {ss:?})", tree.show()),
                                    wit.clone(),
                                ));
                                return;
                            }
                        }
                    }
                    Err(e) => {
                        acc.violate(Violation::new("C04:unreadable:pair", format!("{}: {e}", tree.show()), wit.clone()));
                        return;
                    }
                }
            }
        }
        let mut scratch = Acc::new();
        match c02::validate(&tree, &real, &mut scratch) {
            Ok(_) => acc.validated += 1,
            Err(m) => acc.violate(Violation::new(
                format!("C04:user-strings-confused:pair:{}", m.aspect),
                format!("{}: {}", tree.show(), m.detail),
                wit,
            )),
        }
    })
}

/// Runs of two and three adjacent octal escapes (quote, backslash, tilde, Latin-1 and UTF-8 lead /
/// continuation bytes, NUL, newline, a letter) inside a format: each escape stands for its own
/// character, whatever its neighbours are, and none of them may end the template's string.
fn octal_runs() -> Acc {
    let vals: [u16; 12] = [0o42, 0o134, 0o176, 0o253, 0o240, 0o377, 0o303, 0o251, 0o101, 0o12, 0o0, 0o45];
    let mut runs: Vec<Vec<u16>> = vec![];
    for a in vals {
        for b in vals {
            runs.push(vec![a, b]);
            for c in vals {
                runs.push(vec![a, b, c]);
            }
        }
    }
    par_cases(runs.len() as u64, |i, acc| {
        let run = &runs[i as usize];
        for (pre, post) in [(true, true), (false, false)] {
            let mut f = vec![];
            if pre {
                f.push(Fmt::Field(Field::Name));
                f.push(Fmt::Lit(" ".into()));
            }
            f.extend(run.iter().map(|n| Fmt::Special(Special::Ascii(*n))));
            if post {
                f.push(Fmt::Field(Field::SizeBytes));
                f.push(nl());
            }
            let tree = Expr::and(Expr::Test(Test::Name("sibling".into())), Expr::Action(Action::Printf(f)));
            acc.states += 1;
            acc.transitions += 1;
            acc.count("octal_runs", 1);
            let Some(real) = conv::expr_to_real(&tree) else { continue };
            let wit = json!({"kind": "c04-octal-run", "tree": tree});
            match compile_handle(&real, &subject::options(false, None)) {
                C::Ok(h) => {
                    if let Ok(text) = h.scheme("/dev/mdt0") {
                        match Prog::read(&text).and_then(|p| p.shape().map(|_| p)) {
                            Ok(_) => {}
                            Err(e) => {
                                acc.violate(Violation::new("C04:unreadable:octal-run", format!("{}: {e}", tree.show()), wit));
                                continue;
                            }
                        }
                    }
                }
                C::Err(e) => {
                    acc.violate(Violation::new("C04:refused:octal-run", format!("{}: {e}", tree.show()), wit));
                    continue;
                }
                C::Panic(p) => {
                    acc.violate(Violation::new(format!("C04:panic:{}", panic_site(&p)), format!("{}: {p}", tree.show()), wit));
                    continue;
                }
            }
            let mut scratch = Acc::new();
            match c02::validate(&tree, &real, &mut scratch) {
                Ok(_) => acc.validated += 1,
                Err(m) => acc.violate(Violation::new(format!("C04:escape-not-verbatim:octal-run:{}", m.aspect), format!("{}: {}", tree.show(), m.detail), wit)),
            }
        }
    })
}

/// Every escape of the format language between / before / after literal text that matters inside
/// a Scheme format template (n, quote, tilde, backslash, percent): printed verbatim, program
/// well-formed.
fn specials_in_context() -> Acc {
    let specials = [Special::Alarm, Special::Backspace, Special::Form, Special::Newline, Special::CarriageReturn, Special::Tab, Special::VTab, Special::Null, Special::Backslash, Special::Ascii(0o134), Special::Ascii(0o42), Special::Ascii(0o176)];
    let lits = ["", "n", "\"", "~", "\\", "%", "a", "012", "~a", "x1e"];
    let mut cases = vec![];
    for s in &specials {
        for before in lits {
            for after in lits {
                let mut f = vec![Fmt::Field(Field::Name)];
                if !before.is_empty() {
                    f.push(Fmt::Lit(before.into()));
                }
                f.push(Fmt::Special(s.clone()));
                if !after.is_empty() {
                    f.push(Fmt::Lit(after.into()));
                }
                cases.push(f.clone());
                let mut g = f;
                g.push(Fmt::Special(s.clone()));
                cases.push(g);
            }
        }
    }
    par_cases(cases.len() as u64, |i, acc| {
        for file in [false, true] {
            let f = cases[i as usize].clone();
            let act = if file { Action::FPrintf("f".into(), f) } else { Action::Printf(f) };
            let tree = Expr::and(Expr::Test(Test::Name("sibling".into())), Expr::Action(act));
            acc.states += 1;
            acc.transitions += 1;
            acc.count("specials_in_context", 1);
            let Some(real) = conv::expr_to_real(&tree) else { continue };
            let wit = json!({"kind": "c04-special", "tree": tree});
            match compile_handle(&real, &subject::options(false, None)) {
                C::Ok(h) => {
                    if let Ok(text) = h.scheme("/dev/mdt0") {
                        if let Err(e) = Prog::read(&text).and_then(|p| p.shape().map(|_| p)) {
                            acc.violate(Violation::new("C04:unreadable:escape-in-context", format!("{}: {e}", tree.show()), wit));
                            continue;
                        }
                    }
                }
                C::Err(e) => {
                    acc.violate(Violation::new("C04:refused:escape-in-context", format!("{}: {e}", tree.show()), wit));
                    continue;
                }
                C::Panic(p) => {
                    acc.violate(Violation::new(format!("C04:panic:{}", panic_site(&p)), format!("{}: {p}", tree.show()), wit));
                    continue;
                }
            }
            let mut scratch = Acc::new();
            match c02::validate(&tree, &real, &mut scratch) {
                Ok(_) => acc.validated += 1,
                Err(m) => acc.violate(Violation::new(format!("C04:escape-not-verbatim:escape-in-context:{}", m.aspect), format!("{}: {}", tree.show(), m.detail), wit)),
            }
        }
    })
}

fn nth_string(mut idx: u64, len: usize) -> String {
    let mut s = String::new();
    for _ in 0..len {
        s.push(ALPHA[(idx % ALPHA.len() as u64) as usize]);
        idx /= ALPHA.len() as u64;
    }
    s
}

pub fn run(ctx: &Ctx) -> i32 {
    let n = ctx.tier.pick(3, 4);
    let mut acc = Acc::new();
    for len in 1..=n {
        let total = (ALPHA.len() as u64).pow(len as u32) * SITES.len() as u64;
        acc = acc.merge(par_cases(total, |i, acc| {
            let site = SITES[(i % SITES.len() as u64) as usize];
            let s = nth_string(i / SITES.len() as u64, len);
            check(site, &s, acc);
        }));
    }
    // long strings: a special character near every likely cut position of a longer string
    let mut longs: Vec<String> = vec![];
    for len in (4usize..=130).chain([255, 256, 257, 1000]) {
        for sp in ["", "\"", "\\", "~", "é"] {
            for pos in [0usize, len / 2, len.saturating_sub(3), len.saturating_sub(2), len - 1] {
                let mut s: String = "a".repeat(pos);
                s.push_str(sp);
                while s.chars().count() < len {
                    s.push('b');
                }
                longs.push(s);
            }
        }
    }
    longs.sort();
    longs.dedup();
    acc = acc.merge(par_cases((longs.len() * SITES.len()) as u64, |i, acc| {
        let site = SITES[(i % SITES.len() as u64) as usize];
        check(site, &longs[(i / SITES.len() as u64) as usize], acc);
    }));
    // with a logger listening at the most verbose level the program must be the same text
    log::set_max_level(log::LevelFilter::Trace);
    let mut verbose = Acc::new();
    for site in SITES {
        for s in ["a", "a\"b", "x\ny", "(display 1)\n(x", "é~\\"] {
            check(site, s, &mut verbose);
            let quiet = {
                log::set_max_level(log::LevelFilter::Off);
                let r = render(site, s);
                log::set_max_level(log::LevelFilter::Trace);
                r
            };
            if let (Ok(Some(q)), Ok(Some(v))) = (quiet, render(site, s)) {
                if q.text != v.text {
                    verbose.violate(Violation::new(
                        format!("C04:program-depends-on-log-level:site={site:?}"),
                        format!("site {site:?}, string {s:?}: the emitted text differs when a logger listens at Trace level"),
                        json!({"kind": "c04", "site": format!("{site:?}"), "string": s, "log": "trace"}),
                    ));
                }
            }
        }
    }
    log::set_max_level(log::LevelFilter::Off);
    acc = acc.merge(verbose);
    acc = acc.merge(escaped_pairs());
    acc = acc.merge(octal_runs());
    acc = acc.merge(specials_in_context());
    // every Unicode scalar value inside the user string (quick: the whole Basic Multilingual Plane
    // and every 16th scalar of the other planes at four kinds of site; thorough: all, every site)
    {
        let thorough = ctx.tier == speclib::report::Tier::Thorough;
        let sites: Vec<Site> = if thorough { SITES.iter().copied().filter(|s| !matches!(s, Site::TimeSelector | Site::ChangeSelector | Site::ModifySelectorFile)).collect() } else { vec![Site::Name, Site::FPrintFile, Site::PrintfLiteral, Site::Xattr, Site::Device] };
        let ns = sites.len() as u64;
        acc = acc.merge(par_cases(0x110000 * ns, |i, acc| {
            let cp = (i / ns) as u32;
            if !thorough && cp >= 0x10000 && cp % 16 != 0 {
                return;
            }
            if let Some(c) = char::from_u32(cp) {
                if cp >= 0x80 {
                    check(sites[(i % ns) as usize], &format!("a{c}b"), acc);
                }
            }
        }));
    }
    let dict = dictionary();
    acc = acc.merge(par_cases((dict.len() * SITES.len()) as u64, |i, acc| {
        let site = SITES[(i % SITES.len() as u64) as usize];
        check(site, &dict[(i / SITES.len() as u64) as usize], acc);
    }));
    let dict_len = dict.len();
    finish(
        ctx,
        acc,
        Finish {
            level: "model_checking",
            exhaustive: true,
            rule: "state = (string-carrying site, user string); the tree is built through the public constructors, compiled and rendered; the text is read back by the independent Guile reader: two expected forms, identical skeleton (string literals replaced by holes) to the program for a benign string, the literal at the site decodes to the user string (literal format text: printed verbatim in the runtime model; file names: present in the destination table); distinct = distinct (site, skeleton) pairs".into(),
            bound: format!("every string of length 1..{n} over {:?}, each of {dict_len} placeholder-like strings, and strings of 14..1000 characters with a quote / backslash / tilde / non-ASCII character at five positions, at each of {} sites; five strings per site again with a logger listening at Trace level; every ordered pair (string, its escaped form) over 16 quote/backslash strings at every pair of matcher sites", ALPHA, SITES.len()),
            assumptions: vec![
                "Guile string-literal escapes as documented in the Guile manual (speclib/src/scm/reader.rs); any other backslash escape is a read error".into(),
                "a string with a glob character is compared with a benign string that also has one (globs legitimately select another matcher primitive)".into(),
            ],
            extra: serde_json::Map::new(),
        },
    )
}

pub fn replay(w: &Value) -> Vec<Violation> {
    let mut acc = Acc::new();
    if w["kind"] == "c04-special" {
        return specials_in_context().violations.into_values().map(|(v, _)| v).collect();
    }
    if w["kind"] == "c04-octal-run" {
        return octal_runs().violations.into_values().map(|(v, _)| v).collect();
    }
    if w["kind"] == "c04-pair" || w["kind"] == "environment-value" {
        // the pair family is small: run it again (an environment finding is re-derived by a full run)
        return escaped_pairs().violations.into_values().map(|(v, _)| v).collect();
    }
    let site = SITES.iter().find(|s| format!("{s:?}") == w["site"].as_str().unwrap_or("")).copied();
    if w["log"] == "trace" {
        log::set_max_level(log::LevelFilter::Trace);
    }
    if let Some(site) = site {
        check(site, w["string"].as_str().unwrap_or(""), &mut acc);
    }
    acc.violations.into_values().map(|(v, _)| v).collect()
}
