//! C15 — parsing and compiling are deterministic functions of their input (DESIGN.md §4 C15).
use crate::conv;
use crate::policy::embedded_clocks;
use crate::props::children::{exe, normalise_clock};
use crate::subject::{compile_render, parse_real, C, P};
use serde_json::{json, Value};
use speclib::report::{finish, Acc, Ctx, Finish, Violation};
use speclib::scm::reader::read_all;
use std::time::{Duration, SystemTime, UNIX_EPOCH};

const EXPRS: [&str; 5] = [
    "-name a -o -iname A -o -name 'a*' -o -path b -o -name a -print",
    "-name x -fprint f -o -name y -fprint0 f -o -iname z -fprintf g '%p' -o -print0 -o -name x -fprint g",
    "-mtime -7 -name '*.log' -print -o -amin +5 -iname '*.TMP' -printf '%p %s\\n'",
    "( -type f,l,d,s,p,b,c -size +1M -fprint big ) , ( -perm -u+x -name q -fprint0 exe ) , ( -cmin 3 -uid 0 -fprintf root '%p %U\\n' )",
    "-pool flash -xattr user.tag -name a -name b -name c -iname a -ipath b -print -printf '%f\\n' -print",
];

/// parses, but compile() fails after the time test has been translated
const FAILING: &str = "-mmin -5 -user bob";
/// call codes in a history: 0..4 = EXPRS[i], 5 = the failing compile, 6 = wait 1.1 s
const FAIL: usize = 5;
const SLEEP: usize = 6;

fn short(s: &str) -> String {
    if s.chars().count() > 70 {
        format!("{}… ({} bytes)", s.chars().take(50).collect::<String>(), s.len())
    } else {
        s.to_string()
    }
}

fn now() -> u64 {
    SystemTime::now().duration_since(UNIX_EPOCH).unwrap().as_secs()
}

/// (parse result, normalised program, table, embedded clocks, t_before, t_after)
struct Obs {
    parsed: String,
    program: String,
    table: String,
    clocks: Vec<u64>,
    before: u64,
    after: u64,
}

fn observe(text: &str) -> Result<Obs, String> {
    let (o, e) = match parse_real(text) {
        P::Ok(o, e) => (o, e),
        P::Err(e) => return Err(format!("parse error: {e}")),
        P::Panic(p) => return Err(format!("panic: {p}")),
    };
    let parsed = format!("{:?} {}", o, conv::expr(&e).show());
    let before = now();
    let r = compile_render(&e, &o, "/dev/mdt0");
    let after = now();
    match r {
        C::Ok((t, io)) => {
            let forms = read_all(&t).map_err(|e| e.to_string())?;
            Ok(Obs { parsed, program: normalise_clock(&t), table: format!("{io:?}"), clocks: embedded_clocks(&forms), before, after })
        }
        C::Err(e) => Err(format!("compile error: {e}")),
        C::Panic(p) => Err(format!("panic: {p}")),
    }
}

fn check_history(h: &[usize], first: &[Obs], acc: &mut Acc) {
    acc.states += 1;
    acc.transitions += h.len() as u64;
    acc.validated += 1;
    for (k, &i) in h.iter().enumerate() {
        let wit = json!({"kind": "history", "calls": h});
        if i == SLEEP {
            std::thread::sleep(Duration::from_millis(1100));
            continue;
        }
        if i == FAIL {
            match observe(FAILING) {
                Err(e) if e.starts_with("compile error") => {}
                other => {
                    acc.violate(Violation::new(
                        "C15:failing-compile-changed-its-answer",
                        format!("history {h:?}, call {k}: compiling {FAILING:?} gave {:?} instead of a compile error", other.map(|o| o.program).unwrap_or_else(|e| e)),
                        wit,
                    ));
                    return;
                }
            }
            continue;
        }
        match observe(EXPRS[i]) {
            Err(e) => {
                acc.violate(Violation::new("C15:call-failed", format!("history {h:?}, call {k}: {e}"), wit));
                return;
            }
            Ok(o) => {
                acc.outcome(&(i, o.program.clone()));
                if o.parsed != first[i].parsed {
                    acc.violate(Violation::new("C15:parse-result-depends-on-history", format!("history {h:?}, call {k}: parsing expression {i} gave {}; the first time it gave {}", o.parsed, first[i].parsed), wit));
                    return;
                }
                if o.program != first[i].program {
                    acc.violate(Violation::new(
                        "C15:program-depends-on-history",
                        format!("history {h:?}, call {k}: compiling expression {i} gave a different program than the first time:\n{}\n-- first --\n{}", o.program, first[i].program),
                        wit,
                    ));
                    return;
                }
                if o.table != first[i].table {
                    acc.violate(Violation::new("C15:table-depends-on-history", format!("history {h:?}, call {k}: table {} vs first {}", o.table, first[i].table), wit));
                    return;
                }
                for c in &o.clocks {
                    if *c < o.before || *c > o.after {
                        acc.violate(Violation::new(
                            "C15:embedded-second-outside-the-compile-call",
                            format!("history {h:?}, call {k}: a time test embeds second {c}, the compile call ran in [{}, {}]", o.before, o.after),
                            wit,
                        ));
                        return;
                    }
                }
            }
        }
    }
}

/// child side: print one line per expression
/// Inputs that are refused (by the parser or by compile): the error text is part of the answer
/// and must be the same in every call and every process.
const REFUSED: [&str; 12] = [
    "-printf 'a\\cb'",
    "-name x -fprintf f '%p\\c'",
    "-mmin -5 -user bob",
    "-regex x",
    "-printf '%d'",
    "-ls",
    "-uid x5",
    "-name",
    "( -name a",
    "-type f,q",
    "-perm u+z",
    "-printf '%q'",
];

pub fn child_dump() -> i32 {
    for r in REFUSED {
        println!("{}", json!({"refused": r, "answer": crate::subject::whole_answer(r)}));
    }
    let extra: Vec<String> = std::env::var("FPVERIF_C15_EXTRA").ok().and_then(|t| serde_json::from_str(&t).ok()).unwrap_or_default();
    for e in EXPRS.iter().map(|s| s.to_string()).chain(extra) {
        match observe(&e) {
            Ok(o) => println!("{}", json!({"parsed": o.parsed, "program": o.program, "table_sorted": sorted_table(&o.table)})),
            Err(e) => println!("{}", json!({"error": e})),
        }
    }
    0
}

/// Time tests whose bound lies within a day of "now": the same text compiled at another date must
/// give the same program (the embedded clock second aside).  Run in fresh processes whose clock
/// is shifted through the clock seam.
fn across_dates(acc: &mut Acc) -> String {
    let shim = speclib::report::root().join("target").join("clockshim.so");
    if !shim.exists() {
        return "clock seam not built: not run".into();
    }
    let t = now();
    let mut texts: Vec<String> = vec![];
    for (unit, secs) in [("m", 60u64), ("h", 3600), ("d", 86400), ("", 60)] {
        for n in [(t + 86_400) / secs, (t + 43_200) / secs + 1, t / secs, t / secs + 1] {
            for (kw, sign) in [("-amin", "+"), ("-mmin", "-"), ("-cmin", "")] {
                texts.push(format!("{kw} {sign}{n}{unit}"));
            }
        }
    }
    for (unit, secs) in [("", 86400u64), ("h", 3600)] {
        for n in [(t + 86_400) / secs, t / secs] {
            texts.push(format!("-mtime +{n}{unit} -print"));
            texts.push(format!("! -atime -{n}{unit}"));
        }
    }
    let extra = serde_json::to_string(&texts).unwrap();
    let dump = |offset: i64| -> Option<Vec<String>> {
        let o = std::process::Command::new(exe("release"))
            .args(["child", "c15"])
            .env("FPVERIF_C15_EXTRA", &extra)
            .env("LD_PRELOAD", &shim)
            .env("FPVERIF_CLOCK_OFFSET", offset.to_string())
            .output()
            .ok()?;
        Some(String::from_utf8_lossy(&o.stdout).lines().skip(EXPRS.len() + REFUSED.len()).map(|l| l.to_string()).collect())
    };
    let Some(base) = dump(0) else { return "child failed".into() };
    let mut compared = 0;
    for (label, off) in [("three days later", 3 * 86_400i64), ("three days earlier", -3 * 86_400), ("two hours later", 7_200), ("a year later", 365 * 86_400)] {
        let Some(other) = dump(off) else { continue };
        for (k, (a, b)) in base.iter().zip(other.iter()).enumerate() {
            acc.states += 1;
            acc.transitions += 1;
            compared += 1;
            // the clock second itself is replaced in both; a count within a day of the shifted
            // clock's value may be replaced on one side only: compare with all long numbers near
            // either clock masked
            let mask = |s: &str| {
                let mut out = String::new();
                let mut num = String::new();
                for c in s.chars().chain(std::iter::once(' ')) {
                    if c.is_ascii_digit() {
                        num.push(c);
                    } else {
                        if let Ok(v) = num.parse::<i128>() {
                            let near = |x: i128| (v - x).abs() <= 2 * 86_400;
                            if num.len() >= 9 && (near(t as i128) || near(t as i128 + off as i128)) {
                                out.push_str("NOW");
                            } else {
                                out.push_str(&num);
                            }
                        } else {
                            out.push_str(&num);
                        }
                        num.clear();
                        out.push(c);
                    }
                }
                out.replace("NOW", "#")
            };
            if mask(a) != mask(b) {
                acc.violate(Violation::new(
                    "C15:program-depends-on-the-date-of-the-call",
                    format!("{:?} compiled now and {label} gives different programs:\n{}\n-- vs --\n{}", texts.get(k).map(|s| s.as_str()).unwrap_or("?"), a.chars().take(500).collect::<String>(), b.chars().take(500).collect::<String>()),
                    json!({"kind": "dates", "text": texts.get(k), "offset": off}),
                ));
                break;
            }
        }
    }
    format!("{} time tests with bounds within a day of now compiled at 5 dates ({compared} comparisons)", texts.len())
}

fn sorted_table(t: &str) -> String {
    // the Debug of a BTreeMap is already ordered
    t.to_string()
}

pub fn run(ctx: &Ctx) -> i32 {
    let mut acc = Acc::new();
    let first: Vec<Obs> = match EXPRS.iter().map(|e| observe(e)).collect::<Result<Vec<_>, _>>() {
        Ok(v) => v,
        Err(e) => {
            let mut acc = Acc::new();
            acc.states = 1;
            acc.violate(Violation::new("C15:call-failed", e, json!({"kind": "history", "calls": [0]})));
            return finish(ctx, acc, fin(0, 0));
        }
    };
    // every history of <= 4 calls (sequentially: the point is the shared process state)
    let maxlen = 4;
    for len in 1..=maxlen {
        for mut idx in 0..6usize.pow(len as u32) {
            let mut h = vec![];
            for _ in 0..len {
                h.push(idx % 6);
                idx /= 6;
            }
            check_history(&h, &first, &mut acc);
        }
    }
    // parse histories: the answer for a text must not depend on what was parsed before it on the
    // same thread (inputs: near-identical spellings, deep nestings around any plausible limit,
    // long formats, errors)
    let nest = |k: usize| format!("{} -true {}", "( ".repeat(k), ") ".repeat(k));
    let inputs: Vec<String> = vec![
        "-name 'a b'".into(),
        "-name 'a  b'".into(),
        "-name \"a  b\"".into(),
        "-name 'a b' ".into(),
        "-name 'a\tb'".into(),
        "-printf 'x  y\\n' -fprint 'o  p'".into(),
        "-printf 'x y\\n' -fprint 'o p'".into(),
        "-true".into(),
        "".into(),
        "  ".into(),
        "-depth".into(),
        "-true -o".into(),
        "-uid x".into(),
        nest(8),
        nest(60),
        nest(63),
        nest(64),
        nest(65),
        nest(70),
        nest(128),
        nest(140),
        format!("{}-print", "! ".repeat(70)),
        format!("-printf '{}.'", "%p and a fairly long piece of literal text, ".repeat(3)),
        format!("-fprintf f '{}.' -fprintf g '{}.'", "%s some text that makes this longer than 48 bytes ", "%s some text that makes this longer than 48 bytes "),
        "-perm u+rwx,g-w -size +5k -mtime -3".into(),
        "-threads 4 -name x -depth".into(),
    ];
    for (i, j, after, alone) in crate::subject::parse_history_pairs(&inputs) {
        acc.violate(Violation::new(
            "C15:parse-result-depends-on-history",
            format!("parse({:?}) right after parse({:?}) on the same thread gives {after}; on a fresh thread it gives {alone}", short(&inputs[j]), short(&inputs[i])),
            json!({"kind": "parse-pair", "first": inputs[i], "second": inputs[j]}),
        ));
    }
    // triples over a smaller set: state that needs two earlier calls
    {
        let small: Vec<String> = [0usize, 1, 2, 8, 9, 14, 17, 19].iter().map(|i| inputs[*i].clone()).collect();
        let alone: Vec<String> = small
            .iter()
            .map(|s| {
                let s = s.clone();
                std::thread::Builder::new().stack_size(256 << 20).spawn(move || format!("{:?}", crate::subject::parse_spec(&s))).unwrap().join().unwrap_or_default()
            })
            .collect();
        for a in 0..small.len() {
            for b in 0..small.len() {
                let (sa, sb, all) = (small[a].clone(), small[b].clone(), small.clone());
                let res: Vec<String> = std::thread::Builder::new()
                    .stack_size(256 << 20)
                    .spawn(move || {
                        all.iter()
                            .map(|c| {
                                let _ = crate::subject::parse_spec(&sa);
                                let _ = crate::subject::parse_spec(&sb);
                                format!("{:?}", crate::subject::parse_spec(c))
                            })
                            .collect()
                    })
                    .unwrap()
                    .join()
                    .unwrap_or_default();
                acc.states += small.len() as u64;
                acc.transitions += 3 * small.len() as u64;
                for (c, r) in res.iter().enumerate() {
                    if r != &alone[c] {
                        acc.violate(Violation::new(
                            "C15:parse-result-depends-on-history",
                            format!("parse({:?}) after parse({:?}) and parse({:?}) on the same thread gives {}; alone it gives {}", short(&small[c]), short(&small[a]), short(&small[b]), short(r), short(&alone[c])),
                            json!({"kind": "parse-triple", "first": small[a], "second": small[b], "third": small[c]}),
                        ));
                    }
                }
            }
        }
    }
    acc.states += (inputs.len() * inputs.len()) as u64;
    acc.transitions += (inputs.len() * inputs.len() * 2) as u64;
    // repeated refusals must not wear anything out: 200 over-deep inputs, then a shallow one
    {
        let deep = nest(150);
        let shallow = vec![nest(1), nest(30), nest(64)];
        let res = std::thread::Builder::new()
            .stack_size(256 << 20)
            .spawn(move || {
                let before: Vec<String> = shallow.iter().map(|s| format!("{:?}", crate::subject::parse_spec(s))).collect();
                for _ in 0..200 {
                    let _ = crate::subject::parse_spec(&deep);
                }
                let after: Vec<String> = shallow.iter().map(|s| format!("{:?}", crate::subject::parse_spec(s))).collect();
                (before, after)
            })
            .unwrap()
            .join();
        acc.states += 1;
        match res {
            Ok((b, a)) if b == a => {}
            Ok((b, a)) => {
                let k = b.iter().zip(a.iter()).position(|(x, y)| x != y).unwrap_or(0);
                acc.violate(Violation::new(
                    "C15:parse-result-depends-on-history",
                    format!("after 200 parses of a 150-fold nested input, a shallow input parses as {} instead of {}", short(&a[k]), short(&b[k])),
                    json!({"kind": "parse-wear", "n": 200}),
                ));
            }
            Err(_) => acc.violate(Violation::new("C15:call-failed", "the parse-history thread died".to_string(), json!({"kind": "parse-wear", "n": 200}))),
        }
    }
    // many rejected inputs must not wear anything out either: 600 repetitions of each kind of
    // rejection, then the probes again
    {
        let rejected: Vec<String> = vec!["( )".into(), "( -name a -o )".into(), "(".into(), ")".into(), "-uid x".into(), "-name".into(), "( ( ( -true".into(), "-perm u=r,g+q".into(), "-printf '%z'".into()];
        let probes: Vec<String> = vec!["( -name a )".into(), "( ( -true ) )".into(), "-perm g=w".into(), "-printf '%p'".into(), "".into(), "-uid 5".into(), nest(40)];
        let res = std::thread::Builder::new()
            .stack_size(256 << 20)
            .spawn(move || {
                let before: Vec<String> = probes.iter().map(|s| format!("{:?}", crate::subject::parse_spec(s))).collect();
                let mut out = vec![];
                for r in &rejected {
                    for _ in 0..600 {
                        let _ = crate::subject::parse_spec(r);
                    }
                    let after: Vec<String> = probes.iter().map(|s| format!("{:?}", crate::subject::parse_spec(s))).collect();
                    for (k, (b, a)) in before.iter().zip(after.iter()).enumerate() {
                        if a != b {
                            out.push((r.clone(), probes[k].clone(), a.clone(), b.clone()));
                        }
                    }
                }
                out
            })
            .unwrap()
            .join()
            .unwrap_or_default();
        acc.states += 9 * 7;
        acc.transitions += 9 * 600;
        for (r, p, a, b) in res {
            acc.violate(Violation::new(
                "C15:parse-result-depends-on-history",
                format!("after 600 parses of the rejected input {r:?}, parse({:?}) gives {} instead of {}", short(&p), short(&a), short(&b)),
                json!({"kind": "parse-wear", "rejected": r, "probe": p}),
            ));
        }
    }
    // render histories: the program a compiled expression hands out for a device is a function of
    // the expression and that device alone - not of what the same object rendered before.  Every
    // sequence of <= 3 devices over 4, on one compiled object; the k-th answer (program and table)
    // must be the answer of a freshly compiled equal expression for that device.
    {
        const DEVS: [&str; 4] = ["/dev/mdt0", "/dev/mdt1", "", "/dev/mapper/fs-MDT0000"];
        let more = ["-true", "-print0", "-printf '%H %p\\n'", "-threads 3 -name x"];
        for text in EXPRS.iter().copied().chain(more) {
            let (o, e) = match parse_real(text) {
                P::Ok(o, e) => (o, e),
                _ => continue,
            };
            let fresh: Vec<Option<(String, String)>> = DEVS
                .iter()
                .map(|d| match compile_render(&e, &o, d) {
                    C::Ok((t, io)) => Some((normalise_clock(&t), format!("{io:?}"))),
                    _ => None,
                })
                .collect();
            if fresh.iter().any(|f| f.is_none()) {
                continue;
            }
            for len in 2..=3u32 {
                for mut idx in 0..4usize.pow(len) {
                    let mut seq = vec![];
                    for _ in 0..len {
                        seq.push(idx % 4);
                        idx /= 4;
                    }
                    acc.states += 1;
                    acc.transitions += len as u64;
                    let (e2, o2, seq2) = (e.clone(), &o, seq.clone());
                    let got = std::panic::catch_unwind(std::panic::AssertUnwindSafe(move || {
                        let c = lipe_find_parser::compile(&e2, o2).ok()?;
                        Some(seq2.iter().map(|d| (normalise_clock(&c.scheme(DEVS[*d])), format!("{:?}", crate::subject::io_map_of(c.io_map())))).collect::<Vec<_>>())
                    }));
                    let wit = json!({"kind": "render-history", "expr": text, "devices": seq.iter().map(|d| DEVS[*d]).collect::<Vec<_>>()});
                    match got {
                        Ok(Some(v)) => {
                            for (k, d) in seq.iter().enumerate() {
                                if Some(&v[k]) != fresh[*d].as_ref() {
                                    let what = if v[k].1 != fresh[*d].as_ref().unwrap().1 { "table" } else { "program" };
                                    acc.violate(Violation::new(
                                        format!("C15:rendering-depends-on-earlier-renderings:{what}"),
                                        format!("{:?} compiled once and rendered for {:?} in turn: answer {} (for {:?}) differs from what a freshly compiled equal expression renders for that device", short(text), seq.iter().map(|d| DEVS[*d]).collect::<Vec<_>>(), k + 1, DEVS[*d]),
                                        wit.clone(),
                                    ));
                                    break;
                                }
                            }
                        }
                        Ok(None) => {}
                        Err(_) => acc.violate(Violation::new("C15:call-failed", format!("rendering {:?} several times panicked", short(text)), wit)),
                    }
                }
            }
        }
    }
    // equal trees compile to equal programs whether or not their sub-trees are shared nodes
    {
        use lipe_find_parser::ast::{Expression, Operator};
        use std::rc::Rc;
        let leaves = ["-name x", "-uid 5 -o -name y", "! -type f", "-size +1k -perm -600"];
        for l in leaves {
            if let P::Ok(o, e) = parse_real(l) {
                for mk in [0u8, 1, 2] {
                    let op = |a: Expression, b: Expression| {
                        Expression::Operator(Rc::new(match mk {
                            0 => Operator::And(a, b),
                            1 => Operator::Or(a, b),
                            _ => Operator::List(a, b),
                        }))
                    };
                    let shared = op(e.clone(), e.clone());
                    let rebuilt = match (parse_real(l), parse_real(l)) {
                        (P::Ok(_, a), P::Ok(_, b)) => op(a, b),
                        _ => continue,
                    };
                    acc.states += 1;
                    acc.transitions += 2;
                    let (a, b) = (compile_render(&shared, &o, "/dev"), compile_render(&rebuilt, &o, "/dev"));
                    let same = match (&a, &b) {
                        (C::Ok(x), C::Ok(y)) => normalise_clock(&x.0) == normalise_clock(&y.0) && x.1 == y.1,
                        (C::Err(x), C::Err(y)) => x == y,
                        _ => false,
                    };
                    if !same {
                        acc.violate(Violation::new(
                            "C15:equal-trees-compile-differently",
                            format!("two equal trees over {l:?} (one with a shared sub-tree node, one rebuilt) compile to different programs"),
                            json!({"kind": "shared-subtree", "leaf": l, "operator": mk}),
                        ));
                    }
                }
            }
        }
    }
    // the file system is not an input: compiling before and after the named files exist, and
    // under two spellings of one existing file, must give the same program and table
    {
        let dir = speclib::report::root().join("target").join("c15-files").join(format!("{}", std::process::id()));
        let _ = std::fs::create_dir_all(&dir);
        let d = dir.to_string_lossy().to_string();
        let exprs = [
            format!("-fprint {d}/f -o -fprint {d}/./f -o -fprint0 {d}/link"),
            format!("-name x -fprintf {d}/f '%p' -o -fprint {d}/sub/../f"),
        ];
        let before: Vec<Result<(String, String), String>> = exprs.iter().map(|e| observe(e).map(|o| (o.program, o.table))).collect();
        let _ = std::fs::write(dir.join("f"), b"x");
        let _ = std::fs::create_dir_all(dir.join("sub"));
        #[cfg(unix)]
        let _ = std::os::unix::fs::symlink(dir.join("f"), dir.join("link"));
        let after: Vec<Result<(String, String), String>> = exprs.iter().map(|e| observe(e).map(|o| (o.program, o.table))).collect();
        let _ = std::fs::remove_dir_all(&dir);
        acc.states += 2;
        acc.transitions += 4;
        for (k, (b, a)) in before.iter().zip(after.iter()).enumerate() {
            if b != a {
                acc.violate(Violation::new(
                    "C15:result-depends-on-the-file-system",
                    format!("compiling {:?} gives a different program or table once the files it names exist: {:?} vs {:?}", exprs[k], b.as_ref().map(|x| &x.1), a.as_ref().map(|x| &x.1)),
                    json!({"kind": "files", "expr": k}),
                ));
            }
        }
    }
    // several threads inside parse() / compile() at once, each with its own text: the answers
    // must be the ones each text gets alone (sampled schedules; labelled so in the evidence)
    {
        let texts: Vec<String> = [
            "-name a -threads 7 -print",
            "-true -depth -name b",
            "-uid 5 -o -name c -threads 3 -fprint f",
            "-name core -print",
            "-nouser -a -name x -size +1k -print",
            "-name x -regex x -print0",
            "-amin +5x",
            "-name aaaaaaaaaaaaaaaaaaaaaaaaaaaaaaaaaaaaaaaaaaaaaaaaaaaaaaaaaaaaaa -o -uid oops",
            "-printf '%p %z\\n'",
            "( -type f,l,d,s,p,b,c -size +1M -fprint big ) , ( -perm -u+x -fprint0 exe )",
            "-mmin -5 -user bob",
            "-mtime -7 -name '*.log' -printf '%p\\n'",
            "",
            "( ( -name a )",
            "-perm u+x,g-w -links +2",
            "-depth -depth -threads 2 -threads 9",
        ]
        .iter()
        .map(|s| s.to_string())
        .collect();
        let rounds = ctx.tier.pick(1500, 20000);
        acc.states += (texts.len() * rounds) as u64;
        acc.transitions += (texts.len() * rounds) as u64;
        acc.count("concurrent_calls_sampled", (texts.len() * rounds) as u64);
        for (k, r, want, got) in crate::subject::concurrent_calls(&texts, rounds) {
            acc.violate(Violation::new(
                "C15:answer-differs-when-other-threads-call-the-library",
                format!("{} threads parse and compile their own texts at once; thread {k} ({:?}) got in round {r}:\n{}\n-- alone it gets --\n{}", texts.len(), short(&texts[k]), got.chars().take(600).collect::<String>(), want.chars().take(600).collect::<String>()),
                json!({"kind": "concurrent-calls"}),
            ));
        }
    }
    // refused inputs: the same error text on every call, on this thread and on another
    for r in REFUSED {
        acc.states += 1;
        acc.transitions += 3;
        let a = crate::subject::whole_answer(r);
        let b = crate::subject::whole_answer(r);
        let c = std::thread::spawn(move || crate::subject::whole_answer(r)).join().unwrap_or_default();
        if a != b || a != c {
            acc.violate(Violation::new(
                "C15:error-text-differs-between-calls",
                format!("{r:?} is refused with different texts by three calls: {a:?} / {b:?} / {c:?}"),
                json!({"kind": "refused", "input": r}),
            ));
        }
    }
    let dates_note = across_dates(&mut acc);
    speclib::report::EXTRA.lock().unwrap().1.push(("across_dates".into(), json!(dates_note)));
    // fresh processes
    let nproc = ctx.tier.pick(8, 64);
    let mut dumps: Vec<String> = vec![];
    for _ in 0..nproc {
        match std::process::Command::new(exe("release")).args(["child", "c15"]).output() {
            Ok(o) if o.status.success() => dumps.push(String::from_utf8_lossy(&o.stdout).to_string()),
            Ok(o) => {
                println!("MACHINERY-ERROR C15 child failed: {}", o.status);
                return 2;
            }
            Err(e) => {
                println!("MACHINERY-ERROR C15 cannot start child: {e}");
                return 2;
            }
        }
    }
    // the process environment is not an input either: the same dump under other environment
    // variables and from other working directories
    let envs: Vec<(&str, &str)> = vec![
        ("RUST_LOG", "trace"), ("RUST_BACKTRACE", "1"), ("LANG", "fr_FR.UTF-8"), ("LC_ALL", "C"), ("LC_NUMERIC", "de_DE.UTF-8"), ("TZ", "Asia/Tokyo"),
        ("HOME", "/nonexistent"), ("USER", "nobody"), ("TMPDIR", "/nonexistent"), ("PWD", "/"), ("COLUMNS", "10"), ("NO_COLOR", "1"), ("TERM", "dumb"),
        ("POSIXLY_CORRECT", "1"), ("FIND_BLOCK_SIZE", "1024"), ("BLOCK_SIZE", "1024"), ("LIPE_DEBUG", "1"), ("LIPE_THREADS", "3"), ("LIPE_FIND_DEBUG", "1"),
        ("DEBUG", "1"), ("CI", "true"), ("SOURCE_DATE_EPOCH", "1"), ("PATH", "/nonexistent"),
    ];
    // expressions whose words look like something a shell or a library would expand from the
    // environment (tilde, variables, the working directory): to the parser they are plain text
    let envish: Vec<String> = vec![
        "-fprint ~/out -o -fprint0 '~/out0' -o -fprintf \"~/fmt\" '%p\\n'".into(),
        "-name '~' -o -name '~/x' -o -path '$HOME/*' -o -ipath '${PWD}/x' -o -iname '$USER' -print".into(),
        "-fprint '$HOME/list' -o -fprint0 ./rel -o -fprint ../up -o -fprint '~root/x' -o -fprintf '$TMPDIR/t' '%f'".into(),
        "-pool '$USER' -xattr '~/a' -printf '~/%p $HOME ${LANG}\\n'".into(),
    ];
    let envish_json = serde_json::to_string(&envish).unwrap_or_default();
    let child = |f: &dyn Fn(&mut std::process::Command)| -> Option<String> {
        let mut c = std::process::Command::new(exe("release"));
        c.args(["child", "c15"]).env("FPVERIF_C15_EXTRA", &envish_json);
        f(&mut c);
        c.output().ok().map(|o| String::from_utf8_lossy(&o.stdout).to_string())
    };
    let plain = child(&|_| {}).unwrap_or_default();
    if plain.lines().count() != REFUSED.len() + EXPRS.len() + envish.len() || plain.lines().any(|l| l.contains("\"error\"")) {
        println!("MACHINERY-ERROR C15 child did not answer every expression of the environment family");
        return 2;
    }
    let mut env_dumps: Vec<(String, String)> = vec![];
    for (k, v) in &envs {
        if let Some(o) = child(&|c| {
            c.env(k, v);
        }) {
            env_dumps.push((format!("{k}={v}"), o));
        }
    }
    for dir in ["/", "/usr", "/proc/self"] {
        if let Some(o) = child(&|c| {
            c.current_dir(dir);
        }) {
            env_dumps.push((format!("cwd={dir}"), o));
        }
    }
    if let Some(o) = child(&|c| {
        c.env_clear().env("FPVERIF_C15_EXTRA", &envish_json);
    }) {
        env_dumps.push(("empty environment".into(), o));
    }
    for (what, d) in &env_dumps {
        acc.states += 1;
        acc.transitions += 1;
        if d != &plain {
            let which = d.lines().zip(plain.lines()).position(|(x, y)| x != y).unwrap_or(0);
            acc.violate(Violation::new(
                "C15:result-depends-on-the-process-environment",
                format!("with {what} answer {which} of the fixed list of expressions (refusals, the five expressions, four with tilde / variable words) differs from the plain environment's: {}", short(d.lines().nth(which).unwrap_or(""))),
                json!({"kind": "environment", "setting": what}),
            ));
        }
    }
    for (k, d) in dumps.iter().enumerate() {
        acc.states += 1;
        acc.transitions += 1;
        if d != &dumps[0] {
            let (a, b) = (d.lines().collect::<Vec<_>>(), dumps[0].lines().collect::<Vec<_>>());
            let which = a.iter().zip(b.iter()).position(|(x, y)| x != y).unwrap_or(0);
            acc.violate(Violation::new(
                "C15:result-differs-between-processes",
                format!("process {k} and process 0 disagree on expression {which}:\n{}\n-- vs --\n{}", a.get(which).unwrap_or(&""), b.get(which).unwrap_or(&"")),
                json!({"kind": "processes", "n": nproc}),
            ));
            break;
        }
    }
    // the in-process results must also equal what the fresh processes print
    let mine: String = REFUSED
        .iter()
        .map(|r| format!("{}\n", json!({"refused": r, "answer": crate::subject::whole_answer(r)})))
        .chain(first.iter().map(|o| format!("{}\n", json!({"parsed": o.parsed, "program": o.program, "table_sorted": sorted_table(&o.table)}))))
        .collect();
    if !dumps.is_empty() && mine != dumps[0] {
        acc.violate(Violation::new("C15:result-differs-between-processes", "the driver process and a fresh process disagree".to_string(), json!({"kind": "processes", "n": nproc})));
    }
    // histories with a failing compile and the clock moving between calls
    let mut timed: Vec<Vec<usize>> = vec![];
    for a in [2usize, FAIL] {
        for b in [2usize, 3] {
            timed.push(vec![a, SLEEP, b]);
        }
    }
    timed.push(vec![FAIL, FAIL, SLEEP, 2]);
    if ctx.tier == speclib::report::Tier::Thorough {
        for a in [2usize, 3, FAIL] {
            for b in [2usize, FAIL] {
                for c in [2usize, 3] {
                    timed.push(vec![a, SLEEP, b, c]);
                    timed.push(vec![a, b, SLEEP, c]);
                    timed.push(vec![a, SLEEP, b, SLEEP, c]);
                }
            }
        }
    }
    for h in &timed {
        check_history(h, &first, &mut acc);
    }
    // a compile issued after the process has been running for more than 2 s
    let up = ctx.start.elapsed();
    if up < Duration::from_millis(2200) {
        std::thread::sleep(Duration::from_millis(2200) - up);
    }
    check_history(&[2, 3, 2], &first, &mut acc);
    acc.sample(json!({"history": [2, 0, 2, 3], "expressions": EXPRS}));
    finish(ctx, acc, fin(nproc, maxlen))
}

fn fin(nproc: usize, maxlen: usize) -> Finish {
    Finish {
        level: "model_checking",
        exhaustive: true,
        rule: "state = history of parse+compile calls in one process over five resource-rich expressions (two with time tests), a compile that fails after a time test was translated, and waits of 1.1 s (so the clock second changes between calls); every call's parse result, program (embedded clock second replaced) and destination table must equal the first result ever obtained for that expression; the same five expressions evaluated in fresh processes under 23 changed environment variables, an empty environment and three other working directories must give the same bytes; parsing text j right after text i on a fresh thread must answer as parsing j alone, also after two earlier texts over an 8-text subset (23 texts: near-identical spellings, nestings of 8..140, long formats, errors; all ordered pairs), also after 200 refused over-deep inputs; compiling expressions that name files must not depend on whether those files (or symbolic links to them) exist; every embedded second must lie within the clock readings taken around its compile call, also for a call issued after the process has run for more than 2 s; the same five expressions are evaluated in fresh processes and the outputs compared byte-wise; distinct = distinct (expression, program) pairs".into(),
        bound: format!("every call history of length 1..{maxlen} over 5 expressions and the failing compile (exhaustive); every history x·wait·y with x in {{time expression, failing compile}}, y a time expression (thorough: all such of length 4-5 with one or two waits); {nproc} fresh processes (the hash-seed dimension cannot be enumerated: it is covered by repetition, see DESIGN.md §1.2)"),
        assumptions: vec!["std HashMap seeds are per process/instance and not injectable: their dimension is sampled by fresh processes and fresh map instances, not enumerated".into()],
        extra: serde_json::Map::new(),
    }
}

pub fn replay(w: &Value) -> Vec<Violation> {
    let mut acc = Acc::new();
    let first: Vec<Obs> = match EXPRS.iter().map(|e| observe(e)).collect::<Result<Vec<_>, _>>() {
        Ok(v) => v,
        Err(e) => return vec![Violation::new("C15:call-failed", e, w.clone())],
    };
    if w["kind"] == "render-history" {
        let text = w["expr"].as_str().unwrap_or("");
        let devs: Vec<String> = w["devices"].as_array().map(|a| a.iter().filter_map(|x| x.as_str().map(String::from)).collect()).unwrap_or_default();
        let mut out = vec![];
        if let P::Ok(o, e) = parse_real(text) {
            let r = std::panic::catch_unwind(std::panic::AssertUnwindSafe(|| {
                let c = lipe_find_parser::compile(&e, &o).ok()?;
                Some(devs.iter().map(|d| (normalise_clock(&c.scheme(d)), format!("{:?}", crate::subject::io_map_of(c.io_map())))).collect::<Vec<_>>())
            }));
            match r {
                Ok(Some(v)) => {
                    for (k, d) in devs.iter().enumerate() {
                        if let C::Ok((t, io)) = compile_render(&e, &o, d) {
                            if v[k] != (normalise_clock(&t), format!("{io:?}")) {
                                out.push(Violation::new("C15:rendering-depends-on-earlier-renderings", format!("answer {} (for {d:?}) differs from a fresh compile's", k + 1), w.clone()));
                                break;
                            }
                        }
                    }
                }
                Ok(None) => {}
                Err(_) => out.push(Violation::new("C15:call-failed", "rendering panicked".to_string(), w.clone())),
            }
        }
        return out;
    }
    if w["kind"] == "parse-pair" {
        let inputs = vec![w["first"].as_str().unwrap_or("").to_string(), w["second"].as_str().unwrap_or("").to_string()];
        return crate::subject::parse_history_pairs(&inputs)
            .into_iter()
            .map(|(i, j, a, b)| Violation::new("C15:parse-result-depends-on-history", format!("parse of input {j} after input {i}: {a} vs alone {b}"), w.clone()))
            .collect();
    }
    let h: Vec<usize> = w["calls"].as_array().map(|a| a.iter().filter_map(|x| x.as_u64().map(|v| v as usize % 7)).collect()).unwrap_or_else(|| vec![0, 1, 2, 3, 4]);
    check_history(&h, &first, &mut acc);
    acc.violations.into_values().map(|(v, _)| v).collect()
}
