//! C05 — every primary and its argument language is recognised exactly (DESIGN.md §4 C05).
use crate::textcmp::{compare, glue_explains, Verdict};
use serde_json::{json, Value};
use speclib::report::{finish, panic_site, par_items, Acc, Ctx, Finish, Tier, Violation};
use speclib::textspec::{ArgKind, Kw, OPERATOR_WORDS, VOCAB};

const JUNK: [&str; 11] = ["x", "-", "+", ",", ".", "%", "7", "k", "=", ":", "d"];

fn members(kind: ArgKind, tier: Tier) -> Vec<String> {
    let pre = ["", "+", "-"];
    let mut v: Vec<String> = vec![];
    match kind {
        ArgKind::Str => {
            for s in ["x", "a.b", "'a b'", "\"a b\"", "-print", "!", ",", "é", "a\\b", "*.[ch]", "'a\"b'", "\"it's\"", "-o", "007", "a,b", "core,", ",x", "a!b", "x=y", "{}", "+5", "-5"] {
                v.push(s.into());
            }
        }
        ArgKind::U32Cmp => {
            for p in pre {
                for n in ["0", "1", "42", "007", "4294967295", "4294967296", "99999999999"] {
                    v.push(format!("{p}{n}"));
                }
            }
        }
        ArgKind::U64Cmp => {
            for p in pre {
                for n in ["0", "1", "42", "007", "4294967296", "18446744073709551615", "18446744073709551616"] {
                    v.push(format!("{p}{n}"));
                }
            }
        }
        ArgKind::U32 => {
            for n in ["0", "1", "7", "0004", "4294967295", "4294967296"] {
                v.push(n.into());
            }
        }
        ArgKind::SizeCmp => {
            for p in pre {
                for n in ["0", "1", "12", "010"] {
                    for u in ["", "b", "c", "w", "k", "M", "G", "T"] {
                        v.push(format!("{p}{n}{u}"));
                    }
                }
            }
        }
        ArgKind::TimeCmpMin | ArgKind::TimeCmpDay => {
            for p in pre {
                for n in ["0", "3", "030"] {
                    for u in ["", "s", "m", "h", "d"] {
                        v.push(format!("{p}{n}{u}"));
                    }
                }
            }
        }
        ArgKind::TypeList => {
            let l = ['b', 'c', 'd', 'p', 'f', 'l', 's'];
            for a in l {
                v.push(a.to_string());
                for b in l {
                    v.push(format!("{a},{b}"));
                    if tier == Tier::Thorough {
                        for c in l {
                            v.push(format!("{a},{b},{c}"));
                        }
                    }
                }
            }
        }
        ArgKind::Perm => {
            for p in ["", "-", "/"] {
                for m in ["644", "0644", "7777", "000", "u+x", "a=rw", "ug-w", "u+rwx,g+rx", "o=r,u+w", "'u+x'", "\"755\""] {
                    if m.starts_with('\'') || m.starts_with('"') {
                        v.push(format!("{}{}{}", &m[..1], p, &m[1..]));
                    } else {
                        v.push(format!("{p}{m}"));
                    }
                }
            }
        }
        ArgKind::Format => {
            for f in ["'%p\\n'", "a", "'%%'", "'%p %s\\0'", "'\\101'", "'%{fid}'", "'%A@'", "'%TY'", "\"%u:%g\\n\"", "%p", "'a b'", "'%{xattr:abc}\\n'", "'\\\\'", "'%m %M'", "'%p\\012'", "'\\0'", "'a\\054b'", "'\\177'", "'\\007x'", "'a\\777'", "'\\170\\017'", "'%a%b%c%d%D'", "'%f %F %g %G'", "'%h/%H'", "'%H/%h'", "'%i %k %l %m %M %n'", "'%P %s %S %t %u %U %y %Y %Z'", "'%Ck %Tk %Ak'", "'%{projid} %{mirror-count} %{stripe-count} %{stripe-size}'"] {
                v.push(f.into());
            }
        }
    }
    v
}

/// All single-character junk insertions into an argument word (inside the quotes when quoted).
fn corruptions(arg: &str) -> Vec<String> {
    let (open, body, close) = match arg.chars().next() {
        Some(q @ ('\'' | '"')) if arg.len() >= 2 && arg.ends_with(q) => (&arg[..1], &arg[1..arg.len() - 1], &arg[arg.len() - 1..]),
        _ => ("", arg, ""),
    };
    let idx: Vec<usize> = body.char_indices().map(|(i, _)| i).chain(std::iter::once(body.len())).collect();
    let mut out = vec![];
    for &p in &idx {
        for j in JUNK {
            out.push(format!("{open}{}{j}{}{close}", &body[..p], &body[p..]));
        }
    }
    // duplicate the last character (e.g. a unit letter twice), trailing comma handled by JUNK
    if let Some(c) = body.chars().last() {
        out.push(format!("{open}{body}{c}{close}"));
    }
    out
}

fn contexts(core: &str) -> Vec<String> {
    vec![
        core.to_string(),
        format!("-true {core} -o -false"),
        format!("( {core} )"),
        format!("({core})"),
        format!("! {core} , -true"),
    ]
}

struct Case {
    input: String,
    kw: &'static str,
    family: &'static str,
}

fn gen(tier: Tier) -> Vec<Case> {
    let mut cases = vec![];
    let mut push = |input: String, kw: &'static str, family: &'static str| cases.push(Case { input, kw, family });
    for kw in VOCAB {
        // argument tuples: vary one argument over its members/corruptions, others at their first member
        let firsts: Vec<String> = kw.args.iter().map(|k| members(*k, tier)[0].clone()).collect();
        if kw.args.is_empty() {
            for c in contexts(kw.word) {
                push(c, kw.word, "member");
            }
        }
        for (ai, kind) in kw.args.iter().enumerate() {
            for m in members(*kind, tier) {
                let mut args = firsts.clone();
                args[ai] = m.clone();
                let core = format!("{} {}", kw.word, args.join(" "));
                for c in contexts(&core) {
                    push(c, kw.word, "member");
                }
                for bad in corruptions(&m) {
                    let mut args = firsts.clone();
                    args[ai] = bad;
                    let core = format!("{} {}", kw.word, args.join(" "));
                    for c in contexts(&core).into_iter().take(tier.pick(3, 5)) {
                        push(c, kw.word, "corruption");
                    }
                }
            }
            // missing argument(s): the keyword with only the first ai arguments
            let core = std::iter::once(kw.word.to_string()).chain(firsts[..ai].iter().cloned()).collect::<Vec<_>>().join(" ");
            for c in contexts(&core) {
                push(c, kw.word, "missing-argument");
            }
        }
        // glue matrix: the complete primary immediately followed by another word or junk
        let core = std::iter::once(kw.word.to_string()).chain(firsts.iter().cloned()).collect::<Vec<_>>().join(" ");
        for other in VOCAB.iter().map(|k| k.word).chain(OPERATOR_WORDS.iter().copied().filter(|w| w.starts_with('-'))) {
            push(format!("{core}{other}"), kw.word, "glue");
            push(format!("-true {core}{other} -true"), kw.word, "glue");
        }
        for j in ["x", "0", "-", ".", "-x", "s"] {
            push(format!("{core}{j}"), kw.word, "glue");
            push(format!("( {core}{j} )"), kw.word, "glue");
        }
        // keyword split from a suffix that would make a longer keyword, and truncated keywords
        for cut in 2..kw.word.len() {
            push(format!("{} {}", &kw.word[..cut], firsts.join(" ")), kw.word, "truncated-keyword");
        }
        push(format!("{} {}", kw.word.to_uppercase(), firsts.join(" ")), kw.word, "case-changed-keyword");
        push(format!("{} {}", &kw.word[1..], firsts.join(" ")), kw.word, "dashless-keyword");
        push(format!("-{} {}", kw.word, firsts.join(" ")), kw.word, "double-dash-keyword");
    }
    // long members of the argument languages
    for n in (2usize..=130).chain([255, 256, 257, 1000]) {
        push(format!("-uid {}5", "0".repeat(n)), "-uid", "member");
        push(format!("-uid {}4294967296", "0".repeat(n)), "-uid", "corruption");
        push(format!("-size +{}12k", "0".repeat(n)), "-size", "member");
        push(format!("-mtime -{}3h", "0".repeat(n)), "-mtime", "member");
        push(format!("-type {}", vec!["f", "d", "l", "s", "p", "b", "c"].iter().cycle().take(n).cloned().collect::<Vec<_>>().join(",")), "-type", "member");
        push(format!("-type {},x", vec!["f"; n].join(",")), "-type", "corruption");
        push(format!("-perm {}", vec!["u+r", "g+w", "o=x", "a+x", "ug=rw"].iter().cycle().take(n).cloned().collect::<Vec<_>>().join(",")), "-perm", "member");
        push(format!("-perm {},q", vec!["u+r"; n].join(",")), "-perm", "corruption");
        push(format!("-name {}", "n".repeat(n)), "-name", "member");
        push(format!("-name '{} {}'", "n".repeat(n), "m".repeat(n)), "-name", "member");
        push(format!("-xattr-match {} {}", "a".repeat(n), "b".repeat(n)), "-xattr-match", "member");
        push(format!("-fprintf {} '{}'", "f".repeat(n), "%p ".repeat(n)), "-fprintf", "member");
        push(format!("-threads {}7", "0".repeat(n)), "-threads", "member");
    }
    for w in ["foo", "-foo", "-namex", "-not", "-xdev", "-newer", "-delete", "-exec", "--", "-", "-printx", "-print1", "-orx", "-andx", "-ax", "-ox", "x"] {
        for c in contexts(w) {
            push(c, "unknown-word", "unknown-word");
        }
        push(format!("{w} x"), "unknown-word", "unknown-word");
        push(format!("-true {w}"), "unknown-word", "unknown-word");
    }
    cases
}

fn check(case: &Case, acc: &mut Acc) {
    acc.states += 1;
    acc.transitions += 1;
    acc.validated += 1;
    acc.count(&format!("family:{}", case.family), 1);
    let wit = || json!({"kind": "input", "input": case.input, "keyword": case.kw, "family": case.family});
    match compare(&case.input) {
        Verdict::AgreeAccept(t) => {
            acc.count("accepted", 1);
            acc.outcome(&t);
            if case.family == "member" {
                acc.sample(json!({"input": case.input, "tree": t.show()}));
            }
        }
        Verdict::AgreeReject(_, e) => {
            acc.count("rejected", 1);
            acc.outcome(&e);
        }
        Verdict::Skip(r) => acc.skip(r),
        Verdict::Panic(p) => acc.violate(Violation::new(
            format!("C05:panic:{}", panic_site(&p)),
            format!("parse({:?}) panicked: {p}", case.input),
            wit(),
        )),
        Verdict::AcceptsRejected { reject, tree, opts } => {
            let sig = if glue_explains(&case.input, &tree, &opts, 3) {
                "C05:glued-tokens-accepted".to_string()
            } else {
                format!("C05:accepts-non-member:{}", case.kw)
            };
            acc.violate(Violation::new(
                sig,
                format!("parse({:?}) = {} but the reference rejects the input ({reject:?})", case.input, tree.show()),
                wit(),
            ))
        }
        Verdict::RejectsAccepted { err, want } => acc.violate(Violation::new(
            format!("C05:rejects-member:{}", case.kw),
            format!("parse({:?}) failed ({err}); expected {}", case.input, want.show()),
            wit(),
        )),
        Verdict::WrongTree { got, want } => acc.violate(Violation::new(
            format!("C05:wrong-node:{}", case.kw),
            format!("parse({:?}) = {}; expected {}", case.input, got.show(), want.show()),
            wit(),
        )),
        Verdict::WrongOptions { got, want } => acc.violate(Violation::new(
            format!("C05:wrong-options:{}", case.kw),
            format!("parse({:?}) returned options {}; expected {want:?}", case.input, got.dbg),
            wit(),
        )),
    }
}

/// Every character of the Basic Multilingual Plane as (part of) a bare string argument, and glued
/// to a number.
fn every_character() -> Acc {
    speclib::report::par_cases(0x110000, |cp, acc| {
        let c = match char::from_u32(cp as u32) {
            Some(c) if !c.is_control() && !matches!(c, ' ' | '\'' | '"' | '(' | ')' | '!' | ',') => c,
            _ => return,
        };
        if (c as u32) < 0x80 && cp % 1 == 0 && c.is_ascii_alphanumeric() {
            return;
        }
        for (input, kw, family) in [
            (format!("-name x{c}y -print"), "-name", "member"),
            (format!("( -iname {c} )"), "-iname", "member"),
            (format!("-uid 5{c}"), "-uid", "corruption"),
            (format!("-type f{c}"), "-type", "corruption"),
            (format!("-printf '%{{xattr:a{c}b}}'"), "-printf", "corruption"),
            (format!("-fprintf f '%{{xattr:{c}}}\\n'"), "-fprintf", "corruption"),
        ] {
            check(&Case { input, kw, family }, acc);
        }
    })
}

/// The argument values returned must be those of *this* text, whatever the thread parsed before:
/// texts that differ only inside a quoted argument (amount and kind of blank space, a keyword
/// spelled inside the quotes), every ordered pair, the second right after the first on a fresh
/// thread, against the answer on a fresh thread (which `check` compares with the reference).
fn histories() -> Acc {
    let inputs: Vec<String> = [
        "-name \"a b\"",
        "-name \"a  b\"",
        "-name \"a\tb\"",
        "-name \"a\nb\"",
        "-name 'a b' -print",
        "-name 'a  b' -print",
        "-name  'a b'  -print",
        "-printf \"%p %s\\n\"",
        "-printf \"%p    %s\\n\"",
        "-printf '%p\t%s\\n'",
        "-fprintf 'my file' '%p'",
        "-fprintf 'my  file' '%p'",
        "-fprintf 'my file' '%p '",
        "-fprint 'my file'",
        "-fprint 'my  file'",
        "-path 'x , y'",
        "-path 'x ,  y'",
        "-name a -name b",
        "-name 'a -name b'",
        "-name 'a  -name b'",
        "-xattr-match 'k v' 'w'",
        "-xattr-match 'k' 'v w'",
        "-xattr-match 'k  v' 'w'",
        "-uid 7",
        "-uid +7",
        "-uid  7",
        "-size 7k",
        "-size 7M",
        "-perm 644",
        "-perm -644",
        "-perm /644",
        "-type f,d",
        "-type d,f",
        "-type f",
    ]
    .iter()
    .map(|s| s.to_string())
    .collect();
    let mut acc = Acc::new();
    for i in &inputs {
        check(&Case { input: i.clone(), kw: "history", family: "member" }, &mut acc);
    }
    let n = inputs.len() as u64;
    acc.states += n * n;
    acc.transitions += 2 * n * n;
    acc.count("history_pairs", n * n);
    for (i, j, after, alone) in crate::subject::parse_history_pairs(&inputs) {
        acc.violate(Violation::new(
            "C05:argument-values-of-an-earlier-text",
            format!("parse({:?}) right after parse({:?}) on the same thread answers {after}; on a fresh thread it answers {alone}", inputs[j], inputs[i]),
            json!({"kind": "history", "first": inputs[i], "second": inputs[j]}),
        ));
    }
    acc
}

pub fn run(ctx: &Ctx) -> i32 {
    let cases = gen(ctx.tier);
    let acc = par_items(&cases, check).merge(every_character()).merge(histories());
    let kws: Vec<&Kw> = VOCAB.iter().collect();
    let mut extra = serde_json::Map::new();
    extra.insert("keywords".into(), json!(kws.len()));
    finish(
        ctx,
        acc,
        Finish {
            level: "model_checking",
            exhaustive: true,
            rule: "state = input text built from (keyword, argument member | single-character corruption at every position | missing argument | glued suffix | mangled keyword) x embedding context; each is parsed by the real parser and by the text-level reference; distinct = distinct accepted trees and error texts".into(),
            bound: format!("all {} vocabulary keywords x all members/corruptions of their argument languages x {} contexts; glue matrix keyword x (every vocabulary word + junk suffixes); long members (16..1000 leading zeros / list entries / clauses / characters); every printable character of the Basic Multilingual Plane inside a bare string argument and glued to a numeric / type argument and inside the NAME of %{{xattr:NAME}}; every ordered pair of 34 texts that differ only inside a quoted argument or in one argument value, parsed back to back on one thread", kws.len(), ctx.tier.pick(3, 5)),
            assumptions: vec![
                "vocabulary table and argument languages in harness/speclib/src/textspec.rs (from find(1) and the subject's ast.rs doc comments)".into(),
                "inputs in the unspecified classes of DESIGN.md §2.3 are skipped and counted".into(),
            ],
            extra,
        },
    )
}

pub fn replay(w: &Value) -> Vec<Violation> {
    if w["kind"] == "history" {
        let inputs = vec![w["first"].as_str().unwrap_or("").to_string(), w["second"].as_str().unwrap_or("").to_string()];
        return crate::subject::parse_history_pairs(&inputs)
            .into_iter()
            .map(|(i, j, after, alone)| Violation::new("C05:argument-values-of-an-earlier-text", format!("parse({:?}) after parse({:?}): {after} vs {alone}", inputs[j], inputs[i]), w.clone()))
            .collect();
    }
    let case = Case {
        input: w["input"].as_str().unwrap_or("").to_string(),
        kw: Box::leak(w["keyword"].as_str().unwrap_or("?").to_string().into_boxed_str()),
        family: Box::leak(w["family"].as_str().unwrap_or("?").to_string().into_boxed_str()),
    };
    let mut acc = Acc::new();
    check(&case, &mut acc);
    acc.violations.into_values().map(|(v, _)| v).collect()
}
