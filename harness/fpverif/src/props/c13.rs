//! C13 — global options are honoured wherever they appear (DESIGN.md §4 C13).
use crate::prog::Prog;
use crate::subject::{compile_render, parse_real, C, P};
use crate::textcmp::{compare, Verdict};
use serde_json::{json, Value};
use speclib::ast::Expr;
use speclib::report::{finish, panic_site, par_items, Acc, Ctx, Finish, Violation};
use speclib::textspec::{self, Spec};

const OPTS: [&str; 6] = ["-depth", "-threads 1", "-threads 7", "-threads 4294967295", "-maxdepth 2", "-mindepth 1"];

const BASES: [&str; 24] = [
    "-true",
    "-print",
    "-name x",
    "! -true",
    "( -true )",
    "-true -false",
    "-true -a -false",
    "-true -o -false",
    "-true , -false",
    "! ( -true -o -false )",
    "-name x -print",
    "-name x -o -print",
    "( -name x ) -print",
    "( -true -o -false ) -print",
    "-true -a ( -false -o -print )",
    "! -name x -o ! -print",
    "-uid 0 , -print",
    "-true -o -false -a -print",
    "( ( -true ) )",
    "-true ! -false",
    "-fprint f -print0",
    "-printf '%p\\n' -quit",
    "( -true , -false ) -o -print",
    "-type f -size +1k -print",
];

fn has_option_node(e: &Expr) -> bool {
    match e {
        Expr::Global(_) => true,
        Expr::Not(a) | Expr::Prec(a) => has_option_node(a),
        Expr::And(a, b) | Expr::Or(a, b) | Expr::List(a, b) => has_option_node(a) || has_option_node(b),
        _ => false,
    }
}

/// Split a base into words keeping quoted arguments whole.
fn words(s: &str) -> Vec<String> {
    let mut out = vec![];
    let mut cur = String::new();
    let mut q: Option<char> = None;
    for c in s.chars() {
        match q {
            Some(x) => {
                cur.push(c);
                if c == x {
                    q = None;
                }
            }
            None => {
                if c == ' ' {
                    if !cur.is_empty() {
                        out.push(std::mem::take(&mut cur));
                    }
                } else {
                    if c == '\'' || c == '"' {
                        q = Some(c);
                    }
                    cur.push(c);
                }
            }
        }
    }
    if !cur.is_empty() {
        out.push(cur);
    }
    out
}

/// Positions at which an option may be inserted: word boundaries that do not separate a
/// keyword from its argument.
fn boundaries(ws: &[String]) -> Vec<usize> {
    let mut b = vec![0];
    let mut i = 0;
    while i < ws.len() {
        let n = textspec::lookup(&ws[i]).map(|k| k.args.len()).unwrap_or(0);
        i += 1 + n;
        b.push(i.min(ws.len()));
    }
    b
}

fn check(input: &String, acc: &mut Acc) {
    acc.states += 1;
    acc.transitions += 1;
    acc.validated += 1;
    let wit = || json!({"kind": "input", "input": input});
    match compare(input) {
        Verdict::Skip(r) => {
            acc.skip(r);
            return;
        }
        Verdict::AgreeReject(..) => {
            acc.count("rejected", 1);
            return;
        }
        Verdict::AgreeAccept(t) => {
            acc.count("accepted", 1);
            if has_option_node(&t) {
                acc.violate(Violation::new("C13:option-node-in-tree", format!("parse({input:?}) left an option node in the tree: {}", t.show()), wit()));
            }
        }
        Verdict::Panic(p) => {
            acc.violate(Violation::new(format!("C13:panic:{}", panic_site(&p)), format!("parse({input:?}) panicked: {p}"), wit()));
            return;
        }
        Verdict::AcceptsRejected { reject, tree, .. } => {
            acc.violate(Violation::new("C13:accepts-rejected", format!("parse({input:?}) = {} but the reference rejects it ({reject:?})", tree.show()), wit()));
            return;
        }
        Verdict::RejectsAccepted { err, want } => {
            acc.violate(Violation::new("C13:rejected", format!("parse({input:?}) failed ({err}); expected tree {}", want.show()), wit()));
            return;
        }
        Verdict::WrongTree { got, want } => {
            let sig = if has_option_node(&got) { "C13:option-node-in-tree" } else { "C13:wrong-tree" };
            acc.violate(Violation::new(sig, format!("parse({input:?}) = {}; expected {}", got.show(), want.show()), wit()));
            return;
        }
        Verdict::WrongOptions { got, want } => {
            acc.violate(Violation::new("C13:wrong-options", format!("parse({input:?}) returned options {}; expected last-wins {want:?}", got.dbg), wit()));
            return;
        }
    }
    // compile: the scan call must use the requested thread count or the runtime default
    let want_threads = match textspec::parse(input) {
        Spec::Accept { opts, .. } => opts.threads,
        _ => return,
    };
    if let P::Ok(o, e) = parse_real(input) {
        match compile_render(&e, &o, "/dev") {
            C::Ok((text, _)) => {
                let shape = Prog::read(&text).and_then(|p| p.shape());
                match shape {
                    Ok(s) => {
                        let got = s.scan_args[4].show();
                        let want = match want_threads {
                            Some(n) => n.to_string(),
                            None => "(lipe-getopt-thread-count)".to_string(),
                        };
                        acc.outcome(&(got.clone(), input.len()));
                        if got != want {
                            acc.violate(Violation::new(
                                "C13:scan-thread-count",
                                format!("{input:?} compiles to a scan call with thread argument {got}; expected {want}"),
                                wit(),
                            ));
                        }
                    }
                    Err(e) => acc.violate(Violation::new("C13:program-shape", format!("{input:?}: emitted program: {e}"), wit())),
                }
            }
            C::Err(_) => acc.count("compile_err", 1),
            C::Panic(p) => acc.violate(Violation::new(format!("C13:compile-panic:{}", panic_site(&p)), format!("compile of {input:?} panicked: {p}"), wit())),
        }
    }
}

fn gen(max_opts: usize, lead4: bool) -> Vec<String> {
    let mut out = vec![];
    for base in BASES {
        let ws = words(base);
        let bs = boundaries(&ws);
        // all multisets of insertions: choose k (position, option) pairs, positions non-decreasing
        let mut stack: Vec<Vec<(usize, &str)>> = vec![vec![]];
        for _ in 0..max_opts {
            let mut next = vec![];
            for s in &stack {
                let min_pos = s.last().map(|x| x.0).unwrap_or(0);
                for &p in bs.iter().filter(|p| **p >= min_pos) {
                    for o in OPTS {
                        let mut t = s.clone();
                        t.push((p, o));
                        next.push(t);
                    }
                }
            }
            for s in &next {
                out.push(render(&ws, s));
            }
            stack = next;
        }
        out.push(base.to_string());
        if lead4 {
            for a in OPTS {
                for b in OPTS {
                    for c in OPTS {
                        for d in OPTS {
                            out.push(format!("{a} {b} {c} {d} {base}"));
                        }
                    }
                }
            }
        }
    }
    // long leading runs and many in-expression options
    for base in BASES.iter().take(8) {
        for n in (5usize..=70).chain([127, 128, 129, 255, 256, 257]) {
            let run: Vec<&str> = (0..n).map(|k| ["-depth", "-threads 1", "-threads 7", "-threads 9"][k % 4]).collect();
            out.push(format!("{} {base}", run.join(" ")));
            out.push(format!("{} {base}", vec!["-depth"; n].join(" ")));
            out.push(format!("{base} {}", run.join(" ")));
            out.push(format!("-threads 3 {base} -a ( {} )", run.join(" -o ")));
        }
    }
    // parentheses touching their operand (also right after / before an option word)
    let spaced: Vec<String> = out.iter().filter(|s| s.contains("( ") || s.contains(" )")).take(4000).cloned().collect();
    for s in spaced {
        out.push(s.replace("( ", "(").replace(" )", ")"));
    }
    // blanks before / after / between the words of option-led inputs; other thread counts
    let led: Vec<String> = out.iter().filter(|s| s.starts_with("-depth") || s.starts_with("-threads")).take(3000).cloned().collect();
    for s in led {
        out.push(format!(" {s}"));
        out.push(format!("\t\n{s} "));
        out.push(s.replace(' ', "  "));
    }
    for n in ["0", "00", "1", "2", "65535", "65536", "4294967294", "4294967295", "4294967296", "4294967298", "8589934593", "18446744073709551617"] {
        for base in ["-name x", "-true", "-print0", "-name x -fprint f"] {
            out.push(format!("-threads {n} {base}"));
            out.push(format!("{base} -threads {n}"));
            out.push(format!("-depth -threads 5 {base} -threads {n}"));
            out.push(format!(" -threads {n} -depth {base}"));
        }
    }
    // options only
    for a in OPTS {
        out.push(a.to_string());
        // blanks around an options-only line
        for (l, r) in [("", " "), (" ", ""), ("", "\n"), ("\t", "\t"), ("", "  \n")] {
            out.push(format!("{l}{a}{r}"));
            out.push(format!("{l}-depth {a}{r}"));
        }
        for b in OPTS {
            out.push(format!("{a} {b}"));
            for c in OPTS {
                out.push(format!("{a} {b} {c}"));
            }
        }
    }
    out
}

fn render(ws: &[String], ins: &[(usize, &str)]) -> String {
    let mut out: Vec<String> = vec![];
    for i in 0..=ws.len() {
        for (p, o) in ins {
            if *p == i {
                out.push(o.to_string());
            }
        }
        if i < ws.len() {
            out.push(ws[i].clone());
        }
    }
    out.join(" ")
}

pub fn run(ctx: &Ctx) -> i32 {
    let k = ctx.tier.pick(3, 4);
    let inputs = gen(k, true);
    let mut acc = par_items(&inputs, check);
    // every kind of count (smallest, zero-padded, powers of two, largest, one too large) for each
    // option that takes one, in every place an option may stand
    {
        let mut counted: Vec<String> = vec![];
        for opt in ["-threads", "-maxdepth", "-mindepth"] {
            for n in ["0", "00", "1", "01", "007", "2", "10", "255", "256", "65535", "65536", "2147483648", "4294967295", "4294967296", "99999999999"] {
                for template in ["{o} -name a -print", "-name a {o} -print", "-name a -print {o}", "{o}", "-depth {o} -name a", "{o} -depth", "( -name a {o} ) -print", "! {o}", "-name a -o {o}", "-name a , {o}", "{o} {o}", "-threads 9 {o} -print0", "{o} -threads 9"] {
                    counted.push(template.replace("{o}", &format!("{opt} {n}")));
                }
            }
        }
        acc.count("counted_option_inputs", counted.len() as u64);
        acc = acc.merge(par_items(&counted, check));
    }
    // an option node placed in a tree through the public types has no meaning inside an
    // expression: compile refuses it (it must not silently become a constant, which would lose
    // the option)
    {
        use speclib::ast::{Action, Expr, Global, Test};
        let name = || Expr::Test(Test::Name("x".into()));
        for g in [Global::Depth, Global::Threads(3), Global::MaxDepth(2), Global::MinDepth(1)] {
            for tree in [
                Expr::Global(g.clone()),
                Expr::and(name(), Expr::Global(g.clone())),
                Expr::or(Expr::Global(g.clone()), Expr::Action(Action::Print)),
                Expr::not(Expr::Global(g.clone())),
            ] {
                acc.states += 1;
                acc.transitions += 1;
                if let Some(real) = crate::conv::expr_to_real(&tree) {
                    for (d, th) in [(false, None), (true, Some(2u32))] {
                        if let crate::subject::C::Ok(_) = crate::subject::compile_render(&real, &crate::subject::options(d, th), "/dev") {
                            acc.violate(Violation::new(
                                "C13:option-node-in-a-tree-compiled",
                                format!("compile({}) succeeds: the option node was turned into something else and the option is lost", tree.show()),
                                json!({"kind": "tree", "tree": tree}),
                            ));
                        }
                    }
                }
            }
        }
    }
    acc.sample(json!({"input": inputs[7]}));
    acc.sample(json!({"input": inputs[inputs.len() / 2]}));
    finish(
        ctx,
        acc,
        Finish {
            level: "model_checking",
            exhaustive: true,
            rule: "state = base expression with option words inserted at word boundaries; every state is parsed by the real parser and by the reference (last-wins fold, leading run removed, other options read as -true), then compiled and the scan call's thread argument read back; distinct = distinct (thread argument, input length)".into(),
            bound: format!("24 bases x every insertion of <= {k} options from {:?} at every word boundary{}", OPTS, " + all leading runs of 4 options; leading / trailing / parenthesised runs of 5..256 options on 8 bases; the first 4000 inputs with parentheses also with the parentheses touching their operand"),
            assumptions: vec!["-maxdepth/-mindepth may be refused with an error; if accepted the value must be visible in the returned options".into()],
            extra: serde_json::Map::new(),
        },
    )
}

pub fn replay(w: &Value) -> Vec<Violation> {
    let mut acc = Acc::new();
    check(&w["input"].as_str().unwrap_or("").to_string(), &mut acc);
    acc.violations.into_values().map(|(v, _)| v).collect()
}
