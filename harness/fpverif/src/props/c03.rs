//! C03 — totality: every input gets an answer, never a crash or hang, in both build profiles.
use crate::props::children::{sweep, Rec};
use crate::props::corpus::corpus;
use serde_json::{json, Value};
use speclib::report::{finish, Acc, Ctx, Finish, Violation};

fn short(s: &str) -> String {
    if s.chars().count() > 80 {
        format!("{}… ({} bytes)", s.chars().take(60).collect::<String>(), s.len())
    } else {
        s.to_string()
    }
}

/// A single slow measurement may be scheduling noise on a loaded machine: the input is run again
/// on its own and only counts if it exceeds the budget a second time.
fn still_slow(input: &str, profile: &str) -> bool {
    match sweep(profile, &[input.to_string()], "c03-recheck") {
        Ok(r) => r[0].class == "hang" || r[0].ms > 2000,
        Err(_) => true,
    }
}

pub fn judge(inputs: &[String], recs: &[Rec], profile: &str, acc: &mut Acc) {
    // slow inputs are measured again alone before they count; once three are confirmed the rest
    // are not re-measured (each costs seconds) — the confirmed ones are reported
    let mut confirmed_slow = 0;
    for (i, r) in recs.iter().enumerate() {
        acc.states += 1;
        acc.transitions += 1;
        acc.validated += 1;
        if r.class == "not-run" {
            acc.skip("not run: the shard stopped after two hangs (reported)");
            continue;
        }
        let base = r.class.split(':').next().unwrap_or("");
        acc.count(&format!("{profile}:{base}"), 1);
        acc.outcome(&(r.hash, base));
        let wit = || json!({"kind": "input", "input": inputs[i]});
        if r.class.contains("panic") {
            acc.violate(Violation::new(
                format!("C03:{}", r.class),
                format!("[{profile}] input {:?}: {}", short(&inputs[i]), r.class),
                wit(),
            ));
        } else if r.class.starts_with("died") {
            acc.violate(Violation::new(
                "C03:process-aborted",
                format!("[{profile}] input {:?}: the process died ({}) — abort, stack overflow or allocation failure", short(&inputs[i]), r.class),
                wit(),
            ));
        } else if r.class != "hang" && r.ms > 2000 && confirmed_slow >= 3 {
            acc.skip("slow, not measured again: three slow inputs already confirmed");
        } else if r.class == "hang" || (r.ms > 2000 && still_slow(&inputs[i], profile)) {
            if r.class != "hang" {
                confirmed_slow += 1;
            }
            acc.violate(Violation::new(
                "C03:does-not-terminate-in-time",
                format!("[{profile}] input {:?}: no answer within the per-input budget ({} ms)", short(&inputs[i]), r.ms),
                wit(),
            ));
        }
    }
}

pub fn run(ctx: &Ctx) -> i32 {
    let inputs = corpus(ctx.tier);
    let mut acc = Acc::new();
    for profile in ["release", "debug"] {
        match sweep(profile, &inputs, "c03") {
            Ok(recs) => judge(&inputs, &recs, profile, &mut acc),
            Err(e) => {
                println!("MACHINERY-ERROR C03 sweep in profile {profile}: {e}");
                return 2;
            }
        }
    }
    acc.sample(json!({"input": inputs[inputs.len() / 3]}));
    acc.sample(json!({"input": short(&inputs[inputs.len() - 40])}));
    let mut extra = serde_json::Map::new();
    extra.insert("corpus_inputs".into(), json!(inputs.len()));
    extra.insert("profiles".into(), json!(["release", "debug"]));
    finish(
        ctx,
        acc,
        Finish {
            level: "model_checking",
            exhaustive: true,
            rule: "state = input string of the corpus (six finite families, each enumerated completely) x build profile; each is run in a child process through parse, Display of the error, compile, scheme(\"/\"), scheme(hostile path), io_map(); a panic at any stage (caught, site recorded), a dead child (abort / signal) or no answer within 2 s (re-measured alone) or no output for 15 s is a violation; distinct = distinct result records".into(),
            bound: format!("families: operator-word sequences up to length {}; every argument string up to length {} over 22 characters after each of the argument-taking keywords; every prefix and single-character deletion/replacement/insertion (12 characters) of {} seeds; the numeric boundary lattice under every numeric keyword; growth families to 1024 repetitions / 4 KiB; every keyword alone and before every other keyword — in the release and in the debug build", ctx.tier.pick(5, 6), ctx.tier.pick(2, 3), crate::props::corpus::seeds().len()),
            assumptions: vec!["strings longer than 4 KiB, nesting deeper than 1024 and characters outside the mutation set are not covered".into()],
            extra,
        },
    )
}

pub fn replay(w: &Value) -> Vec<Violation> {
    let mut acc = Acc::new();
    let inputs = vec![w["input"].as_str().unwrap_or("").to_string()];
    for profile in ["release", "debug"] {
        match sweep(profile, &inputs, "c03-replay") {
            Ok(recs) => judge(&inputs, &recs, profile, &mut acc),
            Err(e) => acc.violate(Violation::new("C03:replay-machinery", e, w.clone())),
        }
    }
    acc.violations.into_values().map(|(v, _)| v).collect()
}
