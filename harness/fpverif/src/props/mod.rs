//! One module per property.  Each exposes `run(ctx) -> exit code` and
//! `replay(witness) -> violations` (the single recorded case, without the explorer).
use serde_json::Value;
use speclib::report::{Ctx, Violation};

pub mod c01;
pub mod children;
pub mod corpus;
pub mod c03;
pub mod c15;
pub mod c16;
pub mod c17;
pub mod c02;
pub mod c04;
pub mod c19;
pub mod c20;
pub mod c05;
pub mod c18;
pub mod c14;
pub mod c07;
pub mod c08;
pub mod c09;
pub mod c10;
pub mod c11;
pub mod c12;
pub mod c13;
pub mod c06;

pub fn run(ctx: &Ctx) -> i32 {
    match ctx.id.as_str() {
        "C01" => c01::run(ctx),
        "C03" => c03::run(ctx),
        "C15" => c15::run(ctx),
        "C16" => c16::run(ctx),
        "C17" => c17::run(ctx),
        "C02" => c02::run(ctx),
        "C05" => c05::run(ctx),
        "C19" => c19::run(ctx),
        "C20" => c20::run(ctx),
        "C04" => c04::run(ctx),
        "C18" => c18::run(ctx),
        "C14" => c14::run(ctx),
        "C07" => c07::run(ctx),
        "C08" => c08::run(ctx),
        "C09" => c09::run(ctx),
        "C10" => c10::run(ctx),
        "C11" => c11::run(ctx),
        "C12" => c12::run(ctx),
        "C13" => c13::run(ctx),
        "C06" => c06::run(ctx),
        other => {
            println!("MACHINERY-ERROR unknown property {other}");
            2
        }
    }
}

fn replay_one(id: &str, w: &Value) -> Result<Vec<Violation>, String> {
    match id {
        "C01" => Ok(c01::replay(w)),
        "C03" => Ok(c03::replay(w)),
        "C15" => Ok(c15::replay(w)),
        "C16" => Ok(c16::replay(w)),
        "C17" => Ok(c17::replay(w)),
        "C02" => Ok(c02::replay(w)),
        "C05" => Ok(c05::replay(w)),
        "C19" => Ok(c19::replay(w)),
        "C20" => Ok(c20::replay(w)),
        "C04" => Ok(c04::replay(w)),
        "C18" => Ok(c18::replay(w)),
        "C14" => Ok(c14::replay(w)),
        "C07" => Ok(c07::replay(w)),
        "C08" => Ok(c08::replay(w)),
        "C09" => Ok(c09::replay(w)),
        "C10" => Ok(c10::replay(w)),
        "C11" => Ok(c11::replay(w)),
        "C12" => Ok(c12::replay(w)),
        "C13" => Ok(c13::replay(w)),
        "C06" => Ok(c06::replay(w)),
        other => Err(format!("unknown property {other}")),
    }
}

pub fn replay(ctx: &Ctx, path: &str) -> i32 {
    let text = match std::fs::read_to_string(path) {
        Ok(t) => t,
        Err(e) => {
            println!("MACHINERY-ERROR cannot read {path}: {e}");
            return 2;
        }
    };
    let v: Value = match serde_json::from_str(&text) {
        Ok(v) => v,
        Err(e) => {
            println!("MACHINERY-ERROR bad replay file {path}: {e}");
            return 2;
        }
    };
    let id = v["property"].as_str().unwrap_or(&ctx.id).to_string();
    let w = &v["witness"];
    if matches!(w["kind"].as_str(), Some("process") | Some("budget")) {
        // the witness is the whole exploration (it died or did not finish): run it again, in a
        // supervised child like a normal run
        println!("replay {path}: the witness is the whole quick exploration; running it again");
        let exe = std::env::current_exe().unwrap_or_else(|_| "fpverif".into());
        return match std::process::Command::new(exe).args([id.as_str(), "--tier", "quick"]).status() {
            Ok(s) => s.code().unwrap_or(1),
            Err(_) => 2,
        };
    }
    let (a, b) = match (replay_one(&id, w), replay_one(&id, w)) {
        (Ok(a), Ok(b)) => (a, b),
        (Err(e), _) | (_, Err(e)) => {
            println!("MACHINERY-ERROR {e}");
            return 2;
        }
    };
    let render = |v: &Vec<Violation>| v.iter().map(|x| format!("{} :: {}", x.sig, x.what)).collect::<Vec<_>>();
    if render(&a) != render(&b) {
        println!("MACHINERY-ERROR replay is not deterministic:\n  first:  {:?}\n  second: {:?}", render(&a), render(&b));
        return 2;
    }
    if a.is_empty() {
        println!("replay {path}: property {id} holds on this witness");
        return 0;
    }
    let known = speclib::report::load_known().unwrap_or_default();
    let mut code = 0;
    for x in &a {
        if let Some(k) = known.iter().find(|k| k.property == id && k.signature == x.sig) {
            println!("KNOWN-FINDING: property={id} {} [{}]", k.what, x.what);
        } else {
            println!("VIOLATION property={id} replay={path}");
            println!("  signature={}: {}", x.sig, x.what);
            code = 1;
        }
    }
    code
}

/// Entry for child-process modes (totality and profile sweeps).
pub fn child(args: &[String]) -> i32 {
    match args.first().map(|s| s.as_str()) {
        Some("records") if args.len() >= 5 => children::child_records(&args[1..]),
        Some("c15") => c15::child_dump(),
        Some("fragments") => {
            for f in crate::policy::harvest_fragments() {
                println!("{f:?}");
            }
            0
        }
        Some("now") => {
            println!("{}", std::time::SystemTime::now().duration_since(std::time::UNIX_EPOCH).map(|d| d.as_secs()).unwrap_or(0));
            0
        }
        Some("programs") if args.len() >= 2 => children::child_programs(&args[1]),
        Some("family") if args.len() >= 3 => child_family(&args[1], &args[2]),
        _ => {
            eprintln!("unknown child mode {args:?}");
            2
        }
    }
}

/// Families added to a check after its own bound description was written (kept in one place).
pub fn bound_addendum(id: &str) -> &'static str {
    match id {
        "C01" => "every ordered pair of word sequences of length 0..2 (and blank texts) parsed back to back on one thread; every sequence of <= 4/5 words over (, ), !, ',', -a, -o, -true and one of ~80 special primaries (every vocabulary keyword with an argument; primaries whose argument word is an operator or keyword spelling), judged by the text-level reference",
        "C02" => "the embedded 'now' must lie inside the compile call; patterns with quoted glob characters, star runs, non-ASCII letters; formats ending in several newlines or octal line ends",
        "C03" | "C17" => "corpus additions: groups nested 1..64 deep as right / left operand of each operator with each kind of primary innermost; free-text arguments that look like numbers; two bounds on one attribute in both orders and equal products in different units; counts equal to the whole seconds / minutes / hours / days since the epoch and their neighbours; 10^2..1.5*10^5 characters that need escaping in one argument and in the device path (beyond the 4 KiB of the other families); a shard of the child sweep stops after two hangs or answers slower than 5 s (the rest of the shard is counted as skipped)",
        "C08" => "the negation of every check for all 4096 masks x 3 kinds; every ordered pair of checks over 12 masks x 3 kinds under and / or / list, with a test in between, with either operand negated, the pair negated, parenthesised, each executed on modes directed at both masks; a history of refused arguments before accepted ones",
        "C09" => "balanced trees of 4095..70000 -true tests and chains 4095..5000 deep with the only action last / first / absent (2 GiB stack); ~230 strings that spell pieces of generated code as arguments of action-free expressions, on files on which those tests hold",
        "C10" => "formats whose ending only resembles a newline escape (two newlines, \\014, a literal backslash-n); second spellings of a file name (./f, f/, .//f)",
        "C11" => "file names differing by //, /./, a trailing / or ending in the other action's terminator; patterns with star runs behind a backslash",
        "C14" => "every ordered pair of ~55 documented elements and fragments; every sequence of 3..4 pieces over 13 fragments that form a directive only when read from the wrong place; formats of 1000, 4095..5000 and 65535..70000 elements, valid and with an invalid directive last; every Unicode scalar value (17 planes) after %, %A and a backslash",
        "C15" => "56 time tests whose bound lies within a day of now compiled in fresh processes at five dates through the clock seam; SAMPLED, outside the bound: 16 threads parsing and compiling their own texts at once (1500 / 20000 rounds each)",
        "C16" => "formats whose ending only resembles a line end (octal values congruent to 10, form feed, a literal backslash-n, two newlines); second spellings of a file name; the first action 4095..5000 operator levels below the root (model only, 2 GiB stack)",
        "C18" => "offending words containing multi-character sequences (terminal control sequences, format directives, markup, combining marks, supplementary-plane characters); every Unicode scalar value (17 planes) as offending word; SAMPLED, outside the bound: 12 threads parsing their own invalid texts at once",
        "C19" => "every way a format can end (512 octal values, literals that spell an escape, several newlines, each special before / after a newline); balanced trees of 4095..131073 leaves and chains 4095..5000 deep built of tests / of actions only / with the deciding leaf first or last (2 GiB stack); the same node queried before and after an in-place change, trees rebuilt in a loop",
        "C20" => "every Unicode scalar value (17 planes) inside the device path; SAMPLED, outside the bound: one compiled value rendered by 10 threads for 10 devices at once",
        "C04" => "file sites behind an action that needs no framing; every Unicode scalar value inside the user string (quick: Basic Multilingual Plane and every 16th scalar elsewhere at 5 sites; thorough: all scalars, every site); runs of 2..3 adjacent octal escapes over 12 values; ~230 strings harvested from generated code",
        "C05" | "C06" | "C07" | "C12" | "C13" => "",
        _ => "",
    }
}

/// Run one family of a check in a child process under a virtual-memory limit and a wall budget:
/// a change that makes the subject's output (or the harness's model of it) grow without bound on
/// very large trees must end as a reported violation, not as a killed check.
pub fn run_isolated(id: &str, family: &str, what: &str) -> speclib::report::Acc {
    use speclib::report::{Acc, Violation};
    let exe = children::exe("release");
    let mut acc = Acc::new();
    let script = format!("ulimit -v 16777216; exec \"{}\" child family {id} {family}", exe.display());
    let mut child = match std::process::Command::new("sh").arg("-c").arg(&script).stdout(std::process::Stdio::piped()).stderr(std::process::Stdio::null()).spawn() {
        Ok(c) => c,
        Err(_) => return acc,
    };
    let start = std::time::Instant::now();
    let status = loop {
        match child.try_wait() {
            Ok(Some(s)) => break Some(s),
            Ok(None) => {
                if start.elapsed().as_secs() > 240 {
                    let _ = child.kill();
                    let _ = child.wait();
                    break None;
                }
                std::thread::sleep(std::time::Duration::from_millis(100));
            }
            Err(_) => break None,
        }
    };
    let mut out = String::new();
    if let Some(mut o) = child.stdout.take() {
        use std::io::Read;
        let _ = o.read_to_string(&mut out);
    }
    let parsed: Option<serde_json::Value> = out.lines().rev().find_map(|l| serde_json::from_str(l).ok());
    match (status, parsed) {
        (Some(s), Some(v)) if s.success() => {
            acc.states += v["states"].as_u64().unwrap_or(0);
            acc.transitions += v["transitions"].as_u64().unwrap_or(0);
            acc.validated += v["validated"].as_u64().unwrap_or(0);
            for x in v["violations"].as_array().cloned().unwrap_or_default() {
                acc.violate(Violation::new(x["sig"].as_str().unwrap_or("?").to_string(), x["what"].as_str().unwrap_or("").to_string(), x["witness"].clone()));
            }
        }
        (s, _) => {
            acc.states += 1;
            acc.violate(Violation::new(
                format!("{id}:very-large-tree:process-died-or-did-not-finish"),
                format!("{what}: the child process running this family {} (memory limit 16 GiB, 240 s): compiling or running a very large tree exhausts memory, the stack or time", match s { Some(s) => format!("ended with {s}"), None => "did not finish".to_string() }),
                serde_json::json!({"kind": "huge", "family": family}),
            ));
        }
    }
    acc
}

/// child side of `run_isolated`
pub fn child_family(id: &str, family: &str) -> i32 {
    let acc = match (id, family) {
        ("C09", "huge") => c09::huge_family(),
        ("C16", "deep") => c16::deep_family(),
        _ => return 2,
    };
    let viol: Vec<serde_json::Value> = acc.violations.values().map(|(v, _)| serde_json::json!({"sig": v.sig, "what": v.what, "witness": v.witness})).collect();
    println!("{}", serde_json::json!({"states": acc.states, "transitions": acc.transitions, "validated": acc.validated, "violations": viol}));
    0
}
