//! One module per property.  Each exposes `run(ctx) -> exit code` and
//! `replay(witness) -> violations` (the single recorded case, without the explorer).
use serde_json::Value;
use speclib::report::{Ctx, Violation};

pub mod c01;
pub mod children;
pub mod corpus;
pub mod c03;
pub mod c15;
pub mod c16;
pub mod c17;
pub mod c02;
pub mod c04;
pub mod c19;
pub mod c20;
pub mod c05;
pub mod c18;
pub mod c14;
pub mod c07;
pub mod c08;
pub mod c09;
pub mod c10;
pub mod c11;
pub mod c12;
pub mod c13;
pub mod c06;

pub fn run(ctx: &Ctx) -> i32 {
    match ctx.id.as_str() {
        "C01" => c01::run(ctx),
        "C03" => c03::run(ctx),
        "C15" => c15::run(ctx),
        "C16" => c16::run(ctx),
        "C17" => c17::run(ctx),
        "C02" => c02::run(ctx),
        "C05" => c05::run(ctx),
        "C19" => c19::run(ctx),
        "C20" => c20::run(ctx),
        "C04" => c04::run(ctx),
        "C18" => c18::run(ctx),
        "C14" => c14::run(ctx),
        "C07" => c07::run(ctx),
        "C08" => c08::run(ctx),
        "C09" => c09::run(ctx),
        "C10" => c10::run(ctx),
        "C11" => c11::run(ctx),
        "C12" => c12::run(ctx),
        "C13" => c13::run(ctx),
        "C06" => c06::run(ctx),
        other => {
            println!("MACHINERY-ERROR unknown property {other}");
            2
        }
    }
}

fn replay_one(id: &str, w: &Value) -> Result<Vec<Violation>, String> {
    match id {
        "C01" => Ok(c01::replay(w)),
        "C03" => Ok(c03::replay(w)),
        "C15" => Ok(c15::replay(w)),
        "C16" => Ok(c16::replay(w)),
        "C17" => Ok(c17::replay(w)),
        "C02" => Ok(c02::replay(w)),
        "C05" => Ok(c05::replay(w)),
        "C19" => Ok(c19::replay(w)),
        "C20" => Ok(c20::replay(w)),
        "C04" => Ok(c04::replay(w)),
        "C18" => Ok(c18::replay(w)),
        "C14" => Ok(c14::replay(w)),
        "C07" => Ok(c07::replay(w)),
        "C08" => Ok(c08::replay(w)),
        "C09" => Ok(c09::replay(w)),
        "C10" => Ok(c10::replay(w)),
        "C11" => Ok(c11::replay(w)),
        "C12" => Ok(c12::replay(w)),
        "C13" => Ok(c13::replay(w)),
        "C06" => Ok(c06::replay(w)),
        other => Err(format!("unknown property {other}")),
    }
}

pub fn replay(ctx: &Ctx, path: &str) -> i32 {
    let text = match std::fs::read_to_string(path) {
        Ok(t) => t,
        Err(e) => {
            println!("MACHINERY-ERROR cannot read {path}: {e}");
            return 2;
        }
    };
    let v: Value = match serde_json::from_str(&text) {
        Ok(v) => v,
        Err(e) => {
            println!("MACHINERY-ERROR bad replay file {path}: {e}");
            return 2;
        }
    };
    let id = v["property"].as_str().unwrap_or(&ctx.id).to_string();
    let w = &v["witness"];
    let (a, b) = match (replay_one(&id, w), replay_one(&id, w)) {
        (Ok(a), Ok(b)) => (a, b),
        (Err(e), _) | (_, Err(e)) => {
            println!("MACHINERY-ERROR {e}");
            return 2;
        }
    };
    let render = |v: &Vec<Violation>| v.iter().map(|x| format!("{} :: {}", x.sig, x.what)).collect::<Vec<_>>();
    if render(&a) != render(&b) {
        println!("MACHINERY-ERROR replay is not deterministic:\n  first:  {:?}\n  second: {:?}", render(&a), render(&b));
        return 2;
    }
    if a.is_empty() {
        println!("replay {path}: property {id} holds on this witness");
        return 0;
    }
    let known = speclib::report::load_known().unwrap_or_default();
    let mut code = 0;
    for x in &a {
        if let Some(k) = known.iter().find(|k| k.property == id && k.signature == x.sig) {
            println!("KNOWN-FINDING: property={id} {} [{}]", k.what, x.what);
        } else {
            println!("VIOLATION property={id} replay={path}");
            println!("  signature={}: {}", x.sig, x.what);
            code = 1;
        }
    }
    code
}

/// Entry for child-process modes (totality and profile sweeps).
pub fn child(args: &[String]) -> i32 {
    match args.first().map(|s| s.as_str()) {
        Some("records") if args.len() >= 5 => children::child_records(&args[1..]),
        Some("c15") => c15::child_dump(),
        Some("fragments") => {
            for f in crate::policy::harvest_fragments() {
                println!("{f:?}");
            }
            0
        }
        Some("now") => {
            println!("{}", std::time::SystemTime::now().duration_since(std::time::UNIX_EPOCH).map(|d| d.as_secs()).unwrap_or(0));
            0
        }
        Some("programs") if args.len() >= 2 => children::child_programs(&args[1]),
        _ => {
            eprintln!("unknown child mode {args:?}");
            2
        }
    }
}
