//! C14 — format strings are segmented exactly as the printf mini-language says (DESIGN.md §4 C14).
use crate::subject::{parse_spec, PS};
use serde_json::{json, Value};
use speclib::ast::{Action, Expr, Fmt, Special};
use speclib::report::{finish, panic_site, par_cases, Acc, Ctx, Finish, Violation};
use speclib::textspec::{self, normalise, FmtRes, NormEl};

const ALPHA: [char; 16] = ['%', '\\', '{', '}', ':', 'p', 'z', 'A', '@', 'n', 'c', '0', '1', '7', '8', 'f'];

fn classify(want: &[NormEl], got: &[NormEl]) -> &'static str {
    let i = want.iter().zip(got.iter()).position(|(a, b)| a != b).unwrap_or(want.len().min(got.len()));
    let w = want.get(i);
    let g = got.get(i);
    match (w, g) {
        (Some(NormEl::Special(Special::Ascii(_))), _) | (_, Some(NormEl::Special(Special::Ascii(_)))) => "octal-escape",
        (Some(NormEl::Special(Special::Null)), _) | (_, Some(NormEl::Special(Special::Null))) => "nul-escape",
        (Some(NormEl::Special(_)), _) | (_, Some(NormEl::Special(_))) => "escape",
        (Some(NormEl::Field(_)), _) | (_, Some(NormEl::Field(_))) => "directive",
        _ => "literal-text",
    }
}

pub fn check_format(s: &str, acc: &mut Acc) {
    check_format_as(s, Wrap::Single, acc)
}

/// How the format is written on the command line: between single quotes, between double quotes,
/// or as a bare word (which ends at a blank or a `)` and nowhere else - in particular not at a
/// comma, an operator sign or a dash).
#[derive(Clone, Copy, PartialEq, Debug)]
pub enum Wrap {
    Single,
    Double,
    Bare,
}

pub fn check_format_as(s: &str, wrap: Wrap, acc: &mut Acc) {
    acc.states += 1;
    acc.transitions += 1;
    acc.validated += 1;
    let input = match wrap {
        Wrap::Single => {
            if s.contains('\'') {
                acc.skip("format containing a single quote (not expressible in this wrapper)");
                return;
            }
            format!("-printf '{s}'")
        }
        Wrap::Double => {
            if s.contains('"') || s.is_empty() {
                acc.skip("format containing a double quote (not expressible in this wrapper)");
                return;
            }
            format!("-printf \"{s}\"")
        }
        Wrap::Bare => {
            if s.is_empty() || s.starts_with('\'') || s.starts_with('"') || s.chars().any(|c| " \t\r\n)".contains(c)) {
                acc.skip("format that is not one bare word");
                return;
            }
            format!("-printf {s}")
        }
    };
    let wit = || json!({"kind": "format", "format": s, "wrap": format!("{wrap:?}")});
    let spec = textspec::format(s);
    if let FmtRes::Unspec(r) = spec {
        acc.skip(r);
        return;
    }
    let got = match parse_spec(&input) {
        PS::Panic(p) => {
            acc.violate(Violation::new(format!("C14:panic:{}", panic_site(&p)), format!("parse({input:?}) panicked: {p}"), wit()));
            return;
        }
        PS::Ok(_, Expr::Action(Action::Printf(f))) => Some(f),
        PS::Ok(_, other) => {
            acc.violate(Violation::new("C14:not-a-printf-node", format!("parse({input:?}) = {}", other.show()), wit()));
            return;
        }
        PS::Err(_) => None,
    };
    match (spec, got) {
        (FmtRes::Bad, None) => acc.count("rejected", 1),
        (FmtRes::Bad, Some(f)) => acc.violate(Violation::new(
            "C14:accepts-undocumented-directive",
            format!("format {s:?} is accepted as {f:?} although it contains a '%' not followed by a documented directive"),
            wit(),
        )),
        (FmtRes::Ok(want), None) => acc.violate(Violation::new(
            "C14:rejects-valid-format",
            format!("format {s:?} is rejected; its segmentation is {:?}", normalise(&want)),
            wit(),
        )),
        (FmtRes::Ok(want), Some(f)) => {
            acc.count("accepted", 1);
            acc.outcome(&f);
            if f.iter().any(|e| matches!(e, Fmt::Lit(t) if t.is_empty())) {
                acc.violate(Violation::new("C14:empty-literal", format!("format {s:?} yields an empty literal element: {f:?}"), wit()));
            }
            if f.windows(2).any(|w| matches!((&w[0], &w[1]), (Fmt::Lit(_), Fmt::Lit(_)))) {
                acc.violate(Violation::new("C14:adjacent-literals", format!("format {s:?} yields two adjacent literal elements: {f:?}"), wit()));
            }
            let (w, g) = (normalise(&want), normalise(&f));
            if w != g {
                acc.violate(Violation::new(
                    format!("C14:wrong-segmentation:{}", classify(&w, &g)),
                    format!("format {s:?} is segmented as {g:?}; the mini-language says {w:?}"),
                    wit(),
                ));
            }
            if s.len() <= 3 {
                acc.sample(json!({"format": s, "elements": format!("{f:?}")}));
            }
        }
        (FmtRes::Unspec(_), _) => unreachable!(),
    }
}

fn documented() -> Vec<String> {
    let mut v = vec![];
    for d in "%abcdDfFgGhHiklmMnpPsStuUyYZ".chars() {
        v.push(format!("%{d}"));
    }
    for t in ['A', 'C', 'T'] {
        for k in textspec::TIME_SELECTORS.chars() {
            v.push(format!("%{t}{k}"));
        }
    }
    for b in ["{fid}", "{projid}", "{mirror-count}", "{stripe-count}", "{stripe-size}", "{xattr:abc}"] {
        v.push(format!("%{b}"));
    }
    for b in ["fid", "projid", "mirror-count", "stripe-count", "stripe-size"] {
        for suffix in [":x", ":hex", ":", " ", "x", "}", ":a:b"] {
            v.push(format!("%{{{b}{suffix}}}"));
        }
        v.push(format!("%{{{}}}", b.to_uppercase()));
        v.push(format!("%{{{b}"));
        v.push(format!("%{b}}}"));
    }
    for x in ["%{xattr}", "%{xattr:}", "%{xattr:a}x", "%{xattr:ab", "%{xattr:abc}}", "%{xattr::a}", "%{unknown}", "%{}", "%{"] {
        v.push(x.to_string());
    }
    for e in ["a", "b", "c", "f", "n", "r", "t", "v", "0", "\\", "101", "000", "377", "012", "q", " ", "%", "400", "464", "777", "378", "018"] {
        v.push(format!("\\{e}"));
    }
    let mut out = vec![];
    for d in &v {
        out.push(d.clone());
        out.push(format!("ab{d}cd"));
        out.push(format!("{d}{d}"));
        out.push(format!(" {d} "));
        for e in &["%p", "\\n", "\\\\", "\\101"] {
            out.push(format!("{d}{e}"));
            out.push(format!("{e}{d}"));
        }
    }
    out
}

pub fn run(ctx: &Ctx) -> i32 {
    let n = ctx.tier.pick(6, 7);
    let mut acc = Acc::new();
    for len in 1..=n {
        let total = (ALPHA.len() as u64).pow(len as u32);
        let a = par_cases(total, |mut idx, acc| {
            let mut s = String::with_capacity(len);
            for _ in 0..len {
                s.push(ALPHA[(idx % 16) as usize]);
                idx /= 16;
            }
            check_format(&s, acc);
        });
        acc = acc.merge(a);
    }
    let docs = documented();
    let mut d = Acc::new();
    for s in &docs {
        check_format(s, &mut d);
        check_format_as(s, Wrap::Double, &mut d);
        check_format_as(s, Wrap::Bare, &mut d);
        check_bare_in_context(s, &mut d);
    }
    acc = acc.merge(d);
    // the other two ways of writing a format on the command line: between double quotes and as a
    // bare word, over an alphabet holding the signs that mean something elsewhere in the grammar
    // (comma, dash, parenthesis, bang, the other quote) - inside a format they are literal text
    {
        const B: [char; 14] = ['%', 'p', 's', ',', '\\', 'n', '-', '(', '!', 'a', '{', '}', '\'', '"'];
        let m = ctx.tier.pick(4, 5);
        for len in 1..=m {
            let total = (B.len() as u64).pow(len as u32);
            acc = acc.merge(par_cases(total, |mut idx, acc| {
                let mut s = String::with_capacity(len);
                for _ in 0..len {
                    s.push(B[(idx % B.len() as u64) as usize]);
                    idx /= B.len() as u64;
                }
                check_format_as(&s, Wrap::Single, acc);
                check_format_as(&s, Wrap::Double, acc);
                check_format_as(&s, Wrap::Bare, acc);
                check_bare_in_context(&s, acc);
            }));
        }
    }
    // every ordered pair of documented elements (a directive directly after another, after %%,
    // after an escape), and every sequence of up to four pieces that only form a directive when
    // read from the wrong place
    {
        let mut base: Vec<String> = vec![];
        for d in "%abcdDfFgGhHiklmMnpPsStuUyYZ".chars() {
            base.push(format!("%{d}"));
        }
        for t in ["%A@", "%AY", "%A%", "%C%", "%T%", "%Tk", "%A", "%T", "%"] {
            base.push(t.to_string());
        }
        for b in ["{fid}", "{projid}", "{mirror-count}", "{stripe-count}", "{stripe-size}", "{xattr:user}"] {
            base.push(format!("%{b}"));
            base.push(b.to_string());
        }
        for e in ["\\n", "\\\\", "\\101", "\\0", "\\", "\\c", "x", "{", "}"] {
            base.push(e.to_string());
        }
        let n = base.len() as u64;
        acc = acc.merge(par_cases(n * n, |i, acc| {
            let s = format!("{}{}", base[(i / n) as usize], base[(i % n) as usize]);
            check_format(&s, acc);
            check_format(&format!("a{s}b"), acc);
        }));
        let core = ["%%", "%", "%A", "%T%", "\\", "{fid}", "%{fid}", "{xattr:user}", "%{projid}", "%p", "\\n", "x", "}"];
        let k = core.len() as u64;
        for len in 3..=4u32 {
            acc = acc.merge(par_cases(k.pow(len), |mut i, acc| {
                let mut s = String::new();
                for _ in 0..len {
                    s.push_str(core[(i % k) as usize]);
                    i /= k;
                }
                check_format(&s, acc);
            }));
        }
    }
    // very long formats: element counts around 4096 and 65536 (a bound on the number of
    // elements, not of bytes), valid and with an invalid directive at the very end
    {
        let mut huge: Vec<String> = vec![];
        for n in [1000usize, 4095, 4096, 4097, 5000, 65535, 65536, 65537, 70000] {
            for u in ["%p", "\\n", "%%", "a%s", "\\101x"] {
                for tail in ["", "%q", "%p", "\\q", "%{fid}"] {
                    huge.push(format!("{}{tail}", u.repeat(n)));
                }
            }
        }
        acc = acc.merge(speclib::report::par_items(&huge, |s, acc| check_format(s, acc)));
    }
    // every character of the Basic Multilingual Plane after '%', after '%A' and after '\\'
    acc = acc.merge(par_cases(0x110000, |cp, acc| {
        if let Some(c) = char::from_u32(cp as u32) {
            if c == '\'' || c == '\0' || (c as u32) < 0x80 {
                return;
            }
            check_format(&format!("%{c}"), acc);
            check_format(&format!("a%{c}b"), acc);
            check_format(&format!("\\{c}"), acc);
            check_format(&format!("%p{c}%s"), acc);
        }
    }));
    // long formats: each documented element repeated, mixtures, with a literal / directive / escape
    // at the end; each is parsed three times in a row and used twice in one command line
    let mut longs: Vec<String> = vec![];
    let units = ["%p", "%s", "\\n", "\\101", "\\\\", "ab", "%%", "%A@", "%{fid}", "\\0", "\\q", "x"];
    for n in (2usize..=130).chain([255, 256, 257, 500]) {
        for u in units {
            for tail in ["", ".", "%p", "\\n", " end"] {
                let s = format!("{}{tail}", u.repeat(n));
                if s.len() <= 3000 {
                    longs.push(s);
                }
            }
        }
        let mix: String = (0..n).map(|k| units[k % units.len()]).collect();
        longs.push(mix.clone());
        longs.push(format!("{mix}}}, "));
    }
    acc = acc.merge(speclib::report::par_items(&longs, |s, acc| {
        for _ in 0..3 {
            check_format(s, acc);
        }
        // the same format twice in one expression: both actions must carry the same element list
        let input = format!("-fprintf a '{s}' -fprintf b '{s}'");
        if let PS::Ok(_, Expr::And(x, y)) = parse_spec(&input) {
            if let (Expr::Action(Action::FPrintf(_, f1)), Expr::Action(Action::FPrintf(_, f2))) = (&*x, &*y) {
                if f1 != f2 {
                    acc.violate(Violation::new(
                        "C14:same-format-segmented-differently",
                        format!("the format {s:?} used by two actions of one expression is segmented as {f1:?} and as {f2:?}"),
                        json!({"kind": "format", "format": s}),
                    ));
                }
            }
        }
    }));
    finish(
        ctx,
        acc,
        Finish {
            level: "model_checking",
            exhaustive: true,
            rule: "state = format string (BFS by appending one of 16 symbols), wrapped as -printf '<s>'; the element list in the returned tree is compared with an independent hand-written scanner after merging self-standing backslashes into text; raw list checked for empty/adjacent literals; distinct = distinct element lists".into(),
            bound: format!("every string of length 1..{n} over {:?} between single quotes; every string of length 1..4 (thorough: 5) over % p s , \\ n - ( ! a {{ }} and both quote characters written between single quotes, between double quotes, as a bare word, and as a bare word followed by another primary, before a closing parenthesis and after a comma; plus every documented directive and escape alone, doubled, between literals and next to %p, \\n, \\\\, \\101 ({} strings); every non-ASCII character of the Basic Multilingual Plane after '%', after a backslash and between directives; {} long formats (each element repeated 8..500 times, mixtures, five kinds of tail), each parsed three times in a row and used by two actions of one expression", ALPHA, docs.len(), longs.len()),
            assumptions: vec![
                "directive and escape tables from the doc comments of the subject's ast.rs / find(1); octal escapes take exactly three digits".into(),
                "skipped as unspecified: 1-2 digit octal escapes, %A/%C/%T with undocumented selector, %{xattr:} with non-alphabetic name, % followed by flags or width".into(),
            ],
            extra: serde_json::Map::new(),
        },
    )
}

/// A bare-word format followed by further words: the format ends at the blank (or the `)`) and
/// nowhere before it, and what follows is read as what it is.
pub fn check_bare_in_context(s: &str, acc: &mut Acc) {
    if s.is_empty() || s.starts_with('\'') || s.starts_with('"') || s.chars().any(|c| " \t\r\n)".contains(c)) {
        return;
    }
    let want = match textspec::format(s) {
        FmtRes::Ok(w) => Some(normalise(&w)),
        FmtRes::Bad => None,
        FmtRes::Unspec(_) => return,
    };
    for (k, input) in [format!("-printf {s} -print"), format!("( -printf {s})"), format!("-print , -printf {s}")].iter().enumerate() {
        acc.states += 1;
        acc.transitions += 1;
        acc.validated += 1;
        let wit = json!({"kind": "bare-context", "format": s});
        let got = match parse_spec(input) {
            PS::Panic(p) => {
                acc.violate(Violation::new(format!("C14:panic:{}", panic_site(&p)), format!("parse({input:?}) panicked: {p}"), wit));
                continue;
            }
            PS::Ok(_, t) => Some(t),
            PS::Err(_) => None,
        };
        let f = match (k, &got) {
            (0, Some(Expr::And(a, b))) => match (&**a, &**b) {
                (Expr::Action(Action::Printf(f)), Expr::Action(Action::Print)) => Some(f.clone()),
                _ => None,
            },
            (1, Some(Expr::Action(Action::Printf(f)))) => Some(f.clone()),
            (2, Some(Expr::List(a, b))) => match (&**a, &**b) {
                (Expr::Action(Action::Print), Expr::Action(Action::Printf(f))) => Some(f.clone()),
                _ => None,
            },
            _ => None,
        };
        match (&want, got, f) {
            (None, None, _) => acc.count("rejected", 1),
            (None, Some(t), _) => acc.violate(Violation::new(
                "C14:accepts-undocumented-directive",
                format!("parse({input:?}) = {} although the bare-word format {s:?} contains a '%' not followed by a documented directive", t.show()),
                wit,
            )),
            (Some(w), Some(_), Some(f)) if *w == normalise(&f) => {
                acc.count("accepted", 1);
                acc.outcome(&f);
            }
            (Some(w), Some(t), _) => acc.violate(Violation::new(
                "C14:bare-word-format-cut-or-extended",
                format!("parse({input:?}) = {}; the format is the whole bare word {s:?}, segmented as {w:?}, and the other words are read on their own", t.show()),
                wit,
            )),
            (Some(w), None, _) => acc.violate(Violation::new(
                "C14:rejects-valid-format",
                format!("parse({input:?}) is rejected; the format is the bare word {s:?}, segmented as {w:?}"),
                wit,
            )),
        }
    }
}

pub fn replay(w: &Value) -> Vec<Violation> {
    let mut acc = Acc::new();
    let s = w["format"].as_str().unwrap_or("");
    if w["kind"] == "bare-context" {
        check_bare_in_context(s, &mut acc);
    } else {
        let wrap = match w["wrap"].as_str() {
            Some("Double") => Wrap::Double,
            Some("Bare") => Wrap::Bare,
            _ => Wrap::Single,
        };
        check_format_as(s, wrap, &mut acc);
    }
    acc.violations.into_values().map(|(v, _)| v).collect()
}
