//! C16 — concurrent scanner threads never tear or mix output records (DESIGN.md §4 C16).
//!
//! Step programs (lock / write / unlock) are *extracted from the emitted policy* by running it
//! in the runtime model under a recording host; stateright explores every interleaving of
//! those programs; the same emitted policy is then executed by the interpreter on shuttle
//! threads (real blocking mutexes under a controlled scheduler, exhaustive DFS) and the sets of
//! final port contents of the two engines are compared.
use crate::conv;
use crate::subject::{self, compile_render, IoMap, C};
use serde_json::{json, Value};
use speclib::ast::*;
use speclib::eval as spec_eval;
use speclib::record::Record;
use speclib::report::{finish, panic_site, Acc, Ctx, Finish, Tier, Violation};
use speclib::scm::eval::{Ctl, Host, Interp};
use speclib::scm::reader::{read_all, Node};
use stateright::{Checker, Model, Property};
use std::collections::{BTreeSet, HashSet};
use std::sync::Arc;

const SEP: char = '\u{1e}';

#[derive(Clone, Debug, PartialEq, Eq, Hash)]
enum Step {
    Lock(usize),
    Unlock(usize),
    Write(usize, String),
}

#[derive(Default)]
struct RecHost {
    steps: Vec<Step>,
}

impl Host for RecHost {
    fn write(&mut self, port: usize, text: &str) {
        self.steps.push(Step::Write(port, text.to_string()));
    }
    fn lock(&mut self, m: usize) -> Result<(), String> {
        self.steps.push(Step::Lock(m));
        Ok(())
    }
    fn unlock(&mut self, m: usize) -> Result<(), String> {
        self.steps.push(Step::Unlock(m));
        Ok(())
    }
}

fn nl() -> Fmt {
    Fmt::Special(Special::Newline)
}

fn plain_actions() -> Vec<Action> {
    vec![Action::Print, Action::Printf(vec![Fmt::Field(Field::NameNoStart), nl()])]
}

fn framed_actions() -> Vec<Action> {
    vec![
        Action::Print0,
        Action::FPrint("f".into()),
        Action::FPrintf("g".into(), vec![Fmt::Field(Field::NameNoStart)]),
        Action::FPrint0("h".into()),
        Action::Print,
        // a newline inside but not at the end: still needs framing by the rule
        Action::Printf(vec![Fmt::Field(Field::NameNoStart), nl(), Fmt::Field(Field::SizeBytes)]),
    ]
}

fn has_clear(a: &Action) -> bool {
    match a {
        Action::Printf(f) | Action::FPrintf(_, f) => f.iter().any(|e| matches!(e, Fmt::Special(Special::Clear))),
        _ => false,
    }
}

fn chain(items: &[Action]) -> Expr {
    let mut it = items.iter().cloned().map(Expr::Action);
    let mut acc = it.next().unwrap();
    for x in it {
        acc = Expr::and(acc, x);
    }
    acc
}

fn target(a: &Action) -> (Option<String>, Option<char>) {
    match a {
        Action::Print => (None, Some('\n')),
        Action::Print0 => (None, Some('\0')),
        Action::Printf(_) => (None, None),
        Action::FPrint(f) => (Some(f.clone()), Some('\n')),
        Action::FPrint0(f) => (Some(f.clone()), Some('\0')),
        Action::FPrintf(f, _) => (Some(f.clone()), None),
        _ => (None, None),
    }
}

fn thread_record(t: usize) -> Record {
    let mut r = Record::distinct(1_700_000_000);
    let tok = ["pA", "pB", "pC", "pD"][t % 4];
    r.name = tok.into();
    r.rel_path = tok.into();
    r.abs_path = format!("/m/{tok}");
    r
}

/// What each thread must deliver to the shared port, as whole records (spec side).
fn expected_records(items: &[Action], io: &Option<IoMap>, rec: &Record) -> Result<Vec<String>, String> {
    let mut out = vec![];
    for a in items {
        let (dest, term) = target(a);
        let payload = match a {
            Action::Print | Action::Print0 | Action::FPrint(_) | Action::FPrint0(_) => rec.rel_path.clone(),
            Action::Printf(f) | Action::FPrintf(_, f) => {
                // an octal escape above \377 has no defined byte; what matters here is only that
                // records stay whole, so it stands for the character with that number
                let f: Vec<Fmt> = f
                    .iter()
                    .map(|e| match e {
                        Fmt::Special(Special::Ascii(n)) if *n > 255 => Fmt::Lit(char::from_u32(*n as u32).unwrap_or('?').to_string()),
                        other => other.clone(),
                    })
                    .collect();
                spec_eval::render(&f, rec).map_err(|u| u.0.to_string())?
            }
            _ => return Err("not an output action".into()),
        };
        match io {
            None => {
                let mut s = payload;
                if let Some(t) = term {
                    s.push(t);
                }
                out.push(s);
            }
            Some(map) => {
                let tag = map.iter().find(|(_, v)| **v == (dest.clone(), term)).map(|(k, _)| *k).ok_or_else(|| format!("no tag for {dest:?}/{term:?} in {map:?}"))?;
                let mut s = payload;
                s.push(SEP);
                s.push(char::from_u32(tag).ok_or("tag is not a character")?);
                out.push(s);
            }
        }
    }
    Ok(out)
}

/// Can `content` be cut into exactly the expected records, in some order?
fn splits_into(content: &str, expected: &mut Vec<Option<String>>) -> bool {
    if content.is_empty() {
        return expected.iter().all(|e| e.is_none());
    }
    for i in 0..expected.len() {
        if let Some(r) = expected[i].clone() {
            if content.starts_with(r.as_str()) {
                expected[i] = None;
                if splits_into(&content[r.len()..], expected) {
                    return true;
                }
                expected[i] = Some(r);
            }
        }
    }
    false
}

// ---------------------------------------------------------------------------------------------
// stateright model over the extracted step programs

#[derive(Clone, Debug, Hash, PartialEq, Eq)]
struct St {
    pc: Vec<u8>,
    owner: Vec<Option<u8>>,
    ports: Vec<String>,
    /// a thread released a mutex it did not hold
    bad_unlock: bool,
}

#[derive(Clone)]
struct Sys {
    progs: Vec<Vec<Step>>,
    expected: Vec<String>,
    mutexes: usize,
    ports: usize,
}

impl Sys {
    fn enabled(&self, s: &St, t: usize) -> bool {
        match self.progs[t].get(s.pc[t] as usize) {
            None => false,
            Some(Step::Lock(m)) => s.owner[*m].is_none(),
            Some(_) => true,
        }
    }
    fn done(&self, s: &St) -> bool {
        (0..self.progs.len()).all(|t| s.pc[t] as usize >= self.progs[t].len())
    }
    fn step(&self, s: &St, t: usize) -> St {
        let mut n = s.clone();
        match &self.progs[t][s.pc[t] as usize] {
            Step::Lock(m) => n.owner[*m] = Some(t as u8),
            Step::Unlock(m) => {
                if n.owner[*m] != Some(t as u8) {
                    n.bad_unlock = true;
                }
                n.owner[*m] = None;
            }
            Step::Write(p, text) => n.ports[*p].push_str(text),
        }
        n.pc[t] += 1;
        n
    }
    fn records_ok(&self, s: &St) -> bool {
        let mut exp: Vec<Option<String>> = self.expected.iter().cloned().map(Some).collect();
        splits_into(&s.ports[0], &mut exp)
    }
    fn init(&self) -> St {
        St { pc: vec![0; self.progs.len()], owner: vec![None; self.mutexes], ports: vec![String::new(); self.ports], bad_unlock: false }
    }
}

impl Model for Sys {
    type State = St;
    type Action = usize;
    fn init_states(&self) -> Vec<St> {
        vec![self.init()]
    }
    fn actions(&self, s: &St, out: &mut Vec<usize>) {
        for t in 0..self.progs.len() {
            if self.enabled(s, t) {
                out.push(t);
            }
        }
    }
    fn next_state(&self, s: &St, t: usize) -> Option<St> {
        Some(self.step(s, t))
    }
    fn properties(&self) -> Vec<Property<Self>> {
        vec![
            Property::always("no deadlock", |m: &Sys, s: &St| m.done(s) || (0..m.progs.len()).any(|t| m.enabled(s, t))),
            Property::always("whole records at the end", |m: &Sys, s: &St| !m.done(s) || m.records_ok(s)),
            Property::always("mutex released only by its holder", |_m: &Sys, s: &St| !s.bad_unlock),
        ]
    }
}

/// Own exhaustive search over the same model: terminal port contents, and a cross-check of the
/// number of distinct states against stateright's.
fn enumerate(sys: &Sys) -> (usize, usize, BTreeSet<String>) {
    let mut seen: HashSet<St> = HashSet::new();
    let mut stack = vec![sys.init()];
    seen.insert(sys.init());
    let mut transitions = 0usize;
    let mut finals = BTreeSet::new();
    while let Some(s) = stack.pop() {
        let mut any = false;
        for t in 0..sys.progs.len() {
            if sys.enabled(&s, t) {
                any = true;
                transitions += 1;
                let n = sys.step(&s, t);
                if seen.insert(n.clone()) {
                    stack.push(n);
                }
            }
        }
        if !any && sys.done(&s) {
            finals.insert(s.ports[0].clone());
        }
    }
    (seen.len(), transitions, finals)
}

// ---------------------------------------------------------------------------------------------
// the emitted program under shuttle

struct Shared {
    mutexes: Vec<shuttle::sync::Mutex<()>>,
    ports: Vec<shuttle::sync::Mutex<String>>,
}

struct ShHost {
    shared: Arc<Shared>,
    guards: Vec<Option<shuttle::sync::MutexGuard<'static, ()>>>,
}

impl Host for ShHost {
    fn write(&mut self, port: usize, text: &str) {
        self.shared.ports[port].lock().unwrap().push_str(text);
    }
    fn lock(&mut self, m: usize) -> Result<(), String> {
        let g = self.shared.mutexes[m].lock().unwrap();
        // SAFETY: the guard never outlives `self.shared` (an Arc held by this host); guards are
        // dropped before the Arc in `Drop` order below and on unlock.
        let g: shuttle::sync::MutexGuard<'static, ()> = unsafe { std::mem::transmute(g) };
        self.guards[m] = Some(g);
        Ok(())
    }
    fn unlock(&mut self, m: usize) -> Result<(), String> {
        match self.guards[m].take() {
            Some(g) => {
                drop(g);
                Ok(())
            }
            None => Err(format!("mutex {m} unlocked but not held by this thread")),
        }
    }
}

impl Drop for ShHost {
    fn drop(&mut self) {
        for g in self.guards.iter_mut() {
            g.take();
        }
    }
}

#[derive(Default)]
struct ShStats {
    schedules: u64,
    finals: BTreeSet<String>,
    failures: Vec<String>,
}

fn run_under_shuttle(forms: Arc<Vec<Node>>, threads: usize, mutexes: usize, ports: usize) -> Result<ShStats, String> {
    let stats = Arc::new(std::sync::Mutex::new(ShStats::default()));
    let st2 = stats.clone();
    let res = std::panic::catch_unwind(std::panic::AssertUnwindSafe(|| {
        shuttle::check_dfs(
            move || {
                let shared = Arc::new(Shared {
                    mutexes: (0..mutexes).map(|_| shuttle::sync::Mutex::new(())).collect(),
                    ports: (0..ports).map(|_| shuttle::sync::Mutex::new(String::new())).collect(),
                });
                let hs: Vec<_> = (0..threads)
                    .map(|t| {
                        let shared = shared.clone();
                        let forms = forms.clone();
                        shuttle::thread::spawn(move || -> Result<(), String> {
                            let mut host = ShHost { shared, guards: (0..mutexes).map(|_| None).collect() };
                            let mut it = Interp::new(&mut host);
                            it.capture_thunk = true;
                            it.run_forms(&forms).map_err(|e| format!("{e:?}"))?;
                            let thunk = it.captured.clone().ok_or("no policy thunk")?;
                            match it.run_thunk(&thunk, t, thread_record(t)) {
                                Ok(_) => Ok(()),
                                Err(Ctl::Error(e)) => Err(e),
                                Err(Ctl::Break) => Ok(()),
                            }
                        })
                    })
                    .collect();
                let mut fails = vec![];
                for h in hs {
                    if let Ok(Err(e)) = h.join() {
                        fails.push(e);
                    }
                }
                let content = shared.ports[0].lock().unwrap().clone();
                let mut s = st2.lock().unwrap();
                s.schedules += 1;
                s.finals.insert(content);
                s.failures.extend(fails);
            },
            None,
        )
    }));
    let out = std::mem::take(&mut *stats.lock().unwrap());
    match res {
        Ok(()) => Ok(out),
        Err(p) => {
            let msg = p.downcast_ref::<String>().cloned().or_else(|| p.downcast_ref::<&str>().map(|s| s.to_string())).unwrap_or_else(|| "shuttle execution failed".into());
            Err(format!("after {} schedules: {}", out.schedules, msg.lines().next().unwrap_or("")))
        }
    }
}

// ---------------------------------------------------------------------------------------------

struct Case {
    items: Vec<Action>,
    threads: usize,
    shuttle: bool,
    /// number of distinct `-name` tests evaluated (and failing over to -true) before the actions:
    /// they take identifier numbers, so the printers' numbers and frame tags grow
    prefix: usize,
    /// guard every action with the same `-name` test (a repeated pattern between new printers)
    guarded: bool,
    /// the first action lies under this many extra operator levels (`( … -o -false )` repeated)
    deep: usize,
    /// join the actions with `,` (after a leading test) instead of `-a`
    comma: bool,
    /// every action sits in an explicit grouping node of its own (built through the public
    /// types; the parser never leaves one): the choice of plain / framed output must see through it
    grouped: bool,
}

fn case_tree(c: &Case) -> Expr {
    let items: Vec<Expr> = c
        .items
        .iter()
        .map(|a| {
            if c.guarded {
                // "( -name <own path> -a action )": the pattern is the same text in every clause
                Expr::or(Expr::and(Expr::Test(Test::Name("p*".into())), Expr::Action(a.clone())), Expr::Test(Test::True))
            } else if c.grouped {
                Expr::prec(Expr::Action(a.clone()))
            } else {
                Expr::Action(a.clone())
            }
        })
        .collect();
    let mut it = items.into_iter();
    let mut tree = it.next().unwrap();
    for _ in 0..c.deep {
        tree = Expr::or(tree, Expr::Test(Test::False));
    }
    if c.comma {
        // "-true , action1 , action2" (the project documents ',' as AND: a true first clause
        // lets every action run)
        tree = Expr::list(Expr::Test(Test::True), tree);
    }
    for x in it {
        tree = if c.comma { Expr::list(tree, x) } else { Expr::and(tree, x) };
    }
    if c.prefix > 0 {
        let mut pre = Expr::Test(Test::Name("m0".into()));
        for k in 1..c.prefix {
            pre = Expr::or(pre, Expr::Test(Test::Name(format!("m{k}"))));
        }
        pre = Expr::or(pre, Expr::Test(Test::True));
        tree = Expr::and(pre, tree);
    }
    tree
}

fn show(items: &[Action]) -> String {
    chain(items).show()
}

fn show_case(c: &Case) -> String {
    if c.grouped {
        format!("[every action in a grouping node of its own] {}", show(&c.items))
    } else if c.comma {
        format!("[clauses joined by ',' after -true] {}", show(&c.items))
    } else if c.deep > 0 {
        format!("[first action under {} operator levels] {}", c.deep, show(&c.items))
    } else if c.prefix == 0 && !c.guarded {
        show(&c.items)
    } else {
        format!("[{} leading name tests{}] {}", c.prefix, if c.guarded { ", every action guarded by -name 'p*'" } else { "" }, show(&c.items))
    }
}

fn check(case: &Case, acc: &mut Acc) {
    let wit = || json!({"kind": "c16", "actions": case.items, "threads": case.threads, "prefix": case.prefix, "guarded": case.guarded, "deep": case.deep, "comma": case.comma, "grouped": case.grouped});
    let tree = case_tree(case);
    let real = conv::expr_to_real(&tree).unwrap();
    let (text, io) = match compile_render(&real, &subject::options(false, None), "/dev") {
        C::Ok(v) => v,
        C::Err(_) if case.items.iter().any(has_clear) => {
            // `\c` is one of the constructs the target may refuse (C12): nothing is emitted, nothing can tear
            acc.count("refused_clear_formats", 1);
            return;
        }
        C::Err(e) => {
            acc.violate(Violation::new("C16:compile-refused", format!("{}: {e}", show_case(case)), wit()));
            return;
        }
        C::Panic(p) => {
            acc.violate(Violation::new(format!("C16:panic:{}", panic_site(&p)), format!("{}: {p}", show_case(case)), wit()));
            return;
        }
    };
    let forms = match read_all(&text) {
        Ok(f) => f,
        Err(e) => {
            acc.violate(Violation::new("C16:unreadable", format!("{}: {e}", show_case(case)), wit()));
            return;
        }
    };
    // extraction of the step programs from the emitted code
    let mut host = RecHost::default();
    let mut progs: Vec<Vec<Step>> = vec![];
    let (mutexes, ports);
    {
        let mut it = Interp::new(&mut host);
        it.capture_thunk = true;
        if let Err(e) = it.run_forms(&forms) {
            acc.violate(Violation::new("C16:policy-runtime-failure", format!("{}: {e:?}", show_case(case)), wit()));
            return;
        }
        let thunk = match it.captured.clone() {
            Some(t) => t,
            None => {
                acc.violate(Violation::new("C16:program-shape", format!("{}: no scan call", show_case(case)), wit()));
                return;
            }
        };
        let mut marks = vec![];
        for t in 0..case.threads {
            // (the host is borrowed by the interpreter: slice the step log afterwards)
            marks.push(t);
            if let Err(e) = it.run_thunk(&thunk, t, thread_record(t)) {
                acc.violate(Violation::new("C16:policy-runtime-failure", format!("{}: {e:?}", show_case(case)), wit()));
                return;
            }
            it.host.write(usize::MAX, "<end-of-thread>");
        }
        let _ = marks;
    }
    let mut cur = vec![];
    for s in host.steps.drain(..) {
        if matches!(&s, Step::Write(p, _) if *p == usize::MAX) {
            progs.push(std::mem::take(&mut cur));
        } else {
            cur.push(s);
        }
    }
    mutexes = progs.iter().flatten().filter_map(|s| if let Step::Lock(m) | Step::Unlock(m) = s { Some(*m + 1) } else { None }).max().unwrap_or(0);
    ports = progs.iter().flatten().filter_map(|s| if let Step::Write(p, _) = s { Some(*p + 1) } else { None }).max().unwrap_or(1);
    let mut expected = vec![];
    for t in 0..case.threads {
        match expected_records(&case.items, &io, &thread_record(t)) {
            Ok(v) => expected.extend(v),
            Err(e) => {
                acc.violate(Violation::new("C16:destination-table", format!("{}: {e}", show_case(case)), wit()));
                return;
            }
        }
    }
    if io.is_none() {
        // plain mode: the port carries terminated lines, so every record must end in a newline
        if let Some(r) = expected.iter().find(|r| !r.ends_with('\n')) {
            acc.violate(Violation::new(
                "C16:plain-mode-record-not-a-terminated-line",
                format!("{}: plain output was chosen but a record is {r:?}, which is not a complete terminated line: records of different threads run together on the shared port", show_case(case)),
                wit(),
            ));
            return;
        }
    }
    let sys = Sys { progs: progs.clone(), expected, mutexes, ports };
    // engine 1: stateright, BFS and DFS
    let bfs = sys.clone().checker().threads(1).spawn_bfs().join();
    let dfs = sys.clone().checker().threads(1).spawn_dfs().join();
    let (own_states, own_transitions, model_finals) = enumerate(&sys);
    acc.states += bfs.unique_state_count() as u64;
    acc.transitions += own_transitions as u64;
    acc.count("stateright_generated_states", bfs.state_count() as u64);
    acc.count("model_runs", 1);
    let mut discovered = false;
    for (name, path) in bfs.discoveries() {
        discovered = true;
        let sched: Vec<usize> = path.into_actions();
        let sig = match name {
            "no deadlock" => "C16:deadlock",
            "whole records at the end" => "C16:torn-or-mixed-records",
            _ => "C16:mutex-released-by-non-holder",
        };
        // replay the schedule on the model to show the final port content
        let mut s = sys.init();
        for t in &sched {
            s = sys.step(&s, *t);
        }
        acc.violate(Violation::new(
            sig,
            format!("{} with {} threads: schedule {sched:?} (thread per step) violates '{name}'; shared port then holds {:?}; step programs: {:?}", show_case(case), case.threads, s.ports[0], progs[0]),
            wit(),
        ));
    }
    if discovered {
        return;
    }
    if bfs.unique_state_count() != dfs.unique_state_count() || bfs.unique_state_count() != own_states {
        acc.violate(Violation::new(
            "C16:engines-disagree-on-state-count",
            format!("{}: stateright BFS {} / DFS {} / own search {} distinct states", show_case(case), bfs.unique_state_count(), dfs.unique_state_count(), own_states),
            wit(),
        ));
        return;
    }
    acc.outcome(&(model_finals.clone(), case.threads));
    // engine 2: the same emitted program under shuttle's exhaustive DFS scheduler
    if case.shuttle {
        match run_under_shuttle(Arc::new(forms), case.threads, mutexes, ports) {
            Ok(st) => {
                acc.validated += st.schedules;
                acc.count("shuttle_schedules", st.schedules);
                if let Some(f) = st.failures.first() {
                    acc.violate(Violation::new("C16:policy-runtime-failure", format!("{} under shuttle: {f}", show_case(case)), wit()));
                    return;
                }
                for f in &st.finals {
                    let mut exp: Vec<Option<String>> = sys.expected.iter().cloned().map(Some).collect();
                    if !splits_into(f, &mut exp) {
                        acc.violate(Violation::new(
                            "C16:torn-or-mixed-records",
                            format!("{} with {} threads under shuttle: the shared port ended as {f:?}, which is not a sequence of the whole records {:?}", show_case(case), case.threads, sys.expected),
                            wit(),
                        ));
                        return;
                    }
                }
                if st.finals != model_finals {
                    acc.violate(Violation::new(
                        "C16:model-does-not-conform-to-code",
                        format!("{} with {} threads: final port contents under shuttle ({}) differ from the model's terminal states ({})", show_case(case), case.threads, st.finals.len(), model_finals.len()),
                        wit(),
                    ));
                }
            }
            Err(e) => {
                let sig = if e.contains("deadlock") { "C16:deadlock" } else { "C16:shuttle-execution-failed" };
                acc.violate(Violation::new(sig, format!("{} with {} threads under shuttle: {e}", show_case(case), case.threads), wit()));
            }
        }
    }
    if acc.samples.len() < 4 {
        acc.sample(json!({"actions": show_case(case), "threads": case.threads, "step_program_of_thread_0": format!("{:?}", progs[0]), "distinct_final_port_contents": model_finals.len()}));
    }
}

/// Actions under a negation, behind a test that fails, inside explicit groups: whatever the
/// policy writes to a port it writes while holding that port's mutex, and it writes nothing the
/// expression does not write (a print added by mistake sits outside the printers' locking).
fn negated_programs() -> Acc {
    let mut acc = Acc::new();
    let nomatch = || Expr::Test(Test::Name("zzz-no-such-file".into()));
    let mut actions = plain_actions();
    actions.extend(framed_actions());
    actions.push(Action::Quit);
    for a in &actions {
        let a = Expr::Action(a.clone());
        let trees = [
            Expr::not(a.clone()),
            Expr::not(Expr::and(nomatch(), a.clone())),
            Expr::not(Expr::prec(Expr::and(Expr::Test(Test::Name("p*".into())), a.clone()))),
            Expr::or(Expr::not(Expr::and(nomatch(), a.clone())), Expr::Test(Test::False)),
            Expr::and(Expr::not(Expr::not(a.clone())), Expr::not(a.clone())),
            Expr::prec(Expr::not(Expr::list(nomatch(), a.clone()))),
        ];
        for tree in trees {
            acc.states += 1;
            acc.transitions += 1;
            let Some(real) = conv::expr_to_real(&tree) else { continue };
            let wit = json!({"kind": "c16-negated", "tree": tree});
            let (text, _io) = match compile_render(&real, &subject::options(false, None), "/dev") {
                C::Ok(v) => v,
                C::Err(_) => continue,
                C::Panic(p) => {
                    acc.violate(Violation::new(format!("C16:panic:{}", panic_site(&p)), format!("{}: {p}", tree.show()), wit));
                    continue;
                }
            };
            let recs = vec![thread_record(0), thread_record(1)];
            match crate::prog::run(&text, &recs) {
                Ok(out) => {
                    acc.validated += 1;
                    if let Some((port, t)) = out.unguarded.first() {
                        acc.violate(Violation::new(
                            "C16:write-outside-the-port-mutex",
                            format!("{}: the policy writes {t:?} to port {port} without holding its mutex (records of two scanner threads can interleave there)", tree.show()),
                            wit.clone(),
                        ));
                    }
                    // nothing may be written that the expression does not write
                    for (i, r) in recs.iter().enumerate() {
                        let wrote: usize = out.writes.iter().filter(|w| w.0 == i).count();
                        let expected = spec_eval::eval(&tree, r, 1_700_000_000).map(|e| e.events.len()).unwrap_or(usize::MAX);
                        if expected == 0 && wrote > 0 {
                            acc.violate(Violation::new(
                                "C16:write-the-expression-does-not-make",
                                format!("{} on file {:?}: the expression writes nothing, the policy wrote {:?}", tree.show(), r.name, out.writes.iter().filter(|w| w.0 == i).map(|w| w.2.clone()).collect::<Vec<_>>()),
                                wit.clone(),
                            ));
                        }
                    }
                }
                Err(e) => acc.violate(Violation::new("C16:policy-runtime-failure", format!("{}: {e}", tree.show()), wit)),
            }
        }
    }
    acc
}

fn cases(tier: Tier) -> Vec<Case> {
    let mut progs: Vec<Vec<Action>> = vec![];
    for menu in [plain_actions(), framed_actions()] {
        for a in &menu {
            progs.push(vec![a.clone()]);
            for b in &menu {
                progs.push(vec![a.clone(), b.clone()]);
            }
        }
    }
    // destinations that could be mistaken for standard output / for each other
    for pair in [
        vec![Action::Print, Action::FPrint("/dev/stdout".into())],
        vec![Action::FPrint("/dev/stdout".into()), Action::Print],
        vec![Action::FPrint("../out".into()), Action::FPrint("out".into())],
        vec![Action::FPrint0("./out".into()), Action::FPrint0("out".into())],
        vec![Action::FPrint(".out".into()), Action::FPrint("out".into())],
        vec![Action::FPrint("d//out".into()), Action::FPrint("d/out".into())],
        vec![Action::FPrint("out/".into()), Action::FPrint("out".into())],
    ] {
        progs.push(pair);
    }
    // formats whose ending only resembles a line end (octal values congruent to 10, form feed by
    // its octal value, a literal backslash-n, two newlines): records must still never run together
    for last in [
        Fmt::Special(Special::Ascii(0o412)),
        Fmt::Special(Special::Ascii(0o14)),
        Fmt::Special(Special::Ascii(0o12)),
        Fmt::Special(Special::Ascii(0o212)),
        Fmt::Special(Special::Ascii(0o176)),
        Fmt::Special(Special::Ascii(0o42)),
        Fmt::Special(Special::Ascii(0o134)),
        Fmt::Special(Special::Backslash),
        Fmt::Lit("~".into()),
        Fmt::Special(Special::Form),
        Fmt::Special(Special::CarriageReturn),
        Fmt::Lit("\\n".into()),
        Fmt::Lit("n".into()),
    ] {
        progs.push(vec![Action::Printf(vec![Fmt::Field(Field::Name), last.clone()])]);
        progs.push(vec![Action::Print, Action::Printf(vec![Fmt::Field(Field::Name), last.clone()])]);
        progs.push(vec![Action::Printf(vec![Fmt::Field(Field::Name), last]), Action::Print]);
    }
    progs.push(vec![Action::Printf(vec![Fmt::Field(Field::Name), nl(), nl()])]);
    // `\c` ends the output of its format: what decides between plain and framed output is what
    // is written, not how the format happens to end (a target that refuses `\c` is safe)
    for f in [
        vec![Fmt::Field(Field::Name), Fmt::Special(Special::Clear), nl()],
        vec![Fmt::Field(Field::Name), Fmt::Special(Special::Clear)],
        vec![Fmt::Field(Field::Name), nl(), Fmt::Special(Special::Clear)],
        vec![Fmt::Field(Field::Name), nl(), Fmt::Special(Special::Clear), Fmt::Field(Field::Name)],
        vec![Fmt::Special(Special::Clear), Fmt::Field(Field::Name), nl()],
    ] {
        progs.push(vec![Action::Printf(f.clone())]);
        progs.push(vec![Action::Print, Action::Printf(f.clone())]);
        progs.push(vec![Action::FPrintf("g".into(), f.clone()), Action::Print]);
    }
    progs.push(vec![Action::Printf(vec![Fmt::Field(Field::Name), nl(), nl()]), Action::Print0]);
    // longer plain chains (a third and fourth print action on the same port): model only
    let pa = plain_actions();
    for n in 3..=4usize {
        for mut i in 0..pa.len().pow(n as u32) {
            let mut p = vec![];
            for _ in 0..n {
                p.push(pa[i % pa.len()].clone());
                i /= pa.len();
            }
            progs.push(p);
        }
    }
    let fa = framed_actions();
    for a in &fa {
        for b in &fa {
            progs.push(vec![a.clone(), b.clone(), fa[0].clone()]);
        }
    }
    progs.sort_by_key(|p| format!("{p:?}"));
    progs.dedup();
    let mut out = vec![];
    for p in &progs {
        for threads in [2usize, 3] {
            // shuttle's DFS has no partial-order reduction: 2 threads x 1..2 calls and 3 x 1 are feasible
            let calls = p.len();
            if calls >= 4 && threads == 3 {
                continue; // 3 threads x 4 calls: state space too large for the quick tier's budget
            }
            let shuttle = match (tier, threads, calls) {
                (_, 2, 1) => true,
                (Tier::Quick, 2, 2) => out.iter().filter(|c: &&Case| c.shuttle && c.items.len() == 2).count() < 4,
                (Tier::Thorough, 2, 2) => true,
                (Tier::Thorough, 3, 1) => true,
                _ => false,
            };
            out.push(Case { items: p.clone(), threads, shuttle, prefix: 0, guarded: false, deep: 0, comma: false, grouped: false });
        }
    }
    // the same one- and two-action programs with every action in a grouping node of its own
    for p in &progs {
        if p.len() <= 2 {
            out.push(Case { items: p.clone(), threads: 2, shuttle: false, prefix: 0, guarded: false, deep: 0, comma: false, grouped: true });
        }
    }
    // the same one- and two-action programs with the clauses joined by ',' (model only)
    for p in &progs {
        if p.len() <= 2 {
            out.push(Case { items: p.clone(), threads: 2, shuttle: false, prefix: 0, guarded: false, deep: 0, comma: true, grouped: false });
        }
    }
    // larger identifier numbers and repeated patterns (model only)
    let fa = framed_actions();
    for prefix in (0usize..=40).chain([64, 127, 128, 130]) {
        for guarded in [false, true] {
            if prefix == 0 && !guarded {
                continue;
            }
            for (a, b) in [(0usize, 1usize), (1, 2), (1, 0), (2, 3), (4, 1)] {
                out.push(Case { items: vec![fa[a].clone(), fa[b].clone()], threads: 2, shuttle: false, prefix, guarded, deep: 0, comma: false, grouped: false });
            }
            let pa = plain_actions();
            out.push(Case { items: vec![pa[0].clone(), pa[1].clone()], threads: 2, shuttle: false, prefix, guarded, deep: 0, comma: false, grouped: false });
        }
    }
    out
}

/// Programs whose first action lies 4095..5000 operator levels below the root (child process).
pub fn deep_family() -> Acc {
    let fa = framed_actions();
    let pa = plain_actions();
    let unterminated = Action::Printf(vec![Fmt::Field(Field::SizeBytes), Fmt::Lit(" ".into()), Fmt::Field(Field::NameNoStart)]);
    let mut deep_cases = vec![];
    for deep in [4095usize, 4096, 4097, 5000] {
        for first in [unterminated.clone(), fa[0].clone(), fa[1].clone()] {
            deep_cases.push(Case { items: vec![first, pa[0].clone()], threads: 2, shuttle: false, prefix: 0, guarded: false, deep, comma: false, grouped: false });
        }
        deep_cases.push(Case { items: vec![pa[0].clone(), pa[1].clone()], threads: 2, shuttle: false, prefix: 0, guarded: false, deep, comma: false, grouped: false });
    }
    let n = deep_cases.len();
    speclib::trees::on_big_stack(move || {
        let mut a = Acc::new();
        for c in &deep_cases {
            check(c, &mut a);
        }
        a
    })
    .unwrap_or_else(|| {
        let mut a = Acc::new();
        a.violate(Violation::new("C16:engine-crashed", format!("{n} programs whose first action lies 4095..5000 operator levels deep"), json!({"kind": "c16-deep"})));
        a
    })
}

pub fn run(ctx: &Ctx) -> i32 {
    let cs = cases(ctx.tier);
    // each case runs on its own worker thread (shuttle keeps its execution state thread-local)
    let acc = speclib::report::par_items(&cs, |c, acc| {
        let r = std::panic::catch_unwind(std::panic::AssertUnwindSafe(|| {
            let mut a = Acc::new();
            check(c, &mut a);
            a
        }));
        match r {
            Ok(a) => {
                let taken = std::mem::take(acc);
                *acc = taken.merge(a);
            }
            Err(_) => acc.violate(Violation::new("C16:engine-crashed", format!("{} with {} threads", show(&c.items), c.threads), json!({"kind": "c16", "actions": c.items, "threads": c.threads}))),
        }
    });
    let acc = acc.merge(negated_programs());
    // the first action far below the root (4095..5000 operator levels), the others near it:
    // the choice between plain and framed output must still see it (model only; in a child
    // process under a memory limit, see props::run_isolated)
    let acc = acc.merge(crate::props::run_isolated("C16", "deep", "programs whose first action lies 4095..5000 operator levels deep"));
    let mut extra = serde_json::Map::new();
    extra.insert("programs_x_thread_counts".into(), json!(cs.len()));
    extra.insert("cases_replayed_under_shuttle".into(), json!(cs.iter().filter(|c| c.shuttle).count()));
    finish(
        ctx,
        acc,
        Finish {
            level: "model_checking",
            exhaustive: true,
            rule: "step programs (lock / write / unlock) are extracted from the emitted policy by executing it in the runtime model under a recording host; stateright explores every interleaving (BFS and DFS, state counts compared, and compared with an independent search) and checks: no deadlock, mutexes released by their holder, and at every terminal state the shared port splits into exactly the whole records the threads must deliver (frames payload/separator/tag computed from the reference side and io_map(), or terminated lines); the same emitted program is then run by the interpreter on shuttle threads with real blocking mutexes under shuttle's exhaustive DFS scheduler, and the set of final port contents must equal the model's set of terminal states; states = distinct model states, traces_validated_against_impl = shuttle schedules executed".into(),
            bound: "every AND chain of 1..2 printer actions over {-print, -printf '%P\\n'} (plain) and {-print0, -fprint f, -fprintf g '%P', -print} (framed), every plain chain of 3..4 actions and every framed pair followed by -print0, x 2 and 3 threads (3 threads up to 3 calls) in the model; pairs of actions behind 4..130 leading name tests and / or with every action guarded by one repeated name test (identifier numbers and frame tags up to 260) for 2 threads; under shuttle: 2 threads x 1 call all, 2 x 2 a subset in quick / all in thorough, 3 x 1 in thorough".into(),
            assumptions: vec![
                "make-printer = (lambda (s) (with-mutex mutex (display s port) (if term (write-char term port)))); display / write-char of one string or character is one atomic port write".into(),
                "each thread runs the policy thunk once, on its own file record".into(),
            ],
            extra,
        },
    )
}

pub fn replay(w: &Value) -> Vec<Violation> {
    let mut acc = Acc::new();
    if w["kind"] == "c16-negated" {
        return negated_programs().violations.into_values().map(|(v, _)| v).collect();
    }
    if let Ok(items) = serde_json::from_value::<Vec<Action>>(w["actions"].clone()) {
        let threads = w["threads"].as_u64().unwrap_or(2) as usize;
        let prefix = w["prefix"].as_u64().unwrap_or(0) as usize;
        let guarded = w["guarded"].as_bool().unwrap_or(false);
        let c = Case { shuttle: prefix == 0 && !guarded && (threads * items.len() <= 3 || (threads == 2 && items.len() == 2)), items, threads, prefix, guarded, deep: w["deep"].as_u64().unwrap_or(0) as usize, comma: w["comma"].as_bool().unwrap_or(false), grouped: w["grouped"].as_bool().unwrap_or(false) };
        check(&c, &mut acc);
    }
    acc.violations.into_values().map(|(v, _)| v).collect()
}
