//! C09 — implicit print is added exactly when no action is present (DESIGN.md §4 C09).
use crate::conv;
use crate::policy::observe;
use crate::subject::{self, compile_render, C};
use serde_json::{json, Value};
use speclib::ast::*;
use speclib::eval::{self, coalesce};
use speclib::record::Record;
use speclib::report::{finish, panic_site, par_cases, Acc, Ctx, Finish, Violation};
use speclib::trees::{self, negation_variants};

fn menu() -> Vec<Expr> {
    vec![
        Expr::Test(Test::True),
        Expr::Test(Test::False),
        Expr::Test(Test::Name("x".into())),
        Expr::Action(Action::Print),
        Expr::Action(Action::Quit),
        Expr::Action(Action::FPrint("f".into())),
    ]
}

fn records() -> Vec<Record> {
    let mut a = Record::distinct(1_700_000_000);
    a.name = "x".into();
    a.rel_path = "d/x".into();
    let mut b = a.clone();
    b.name = "y".into();
    b.rel_path = "d/y".into();
    vec![a, b]
}

fn action_position(e: &Expr) -> &'static str {
    // where the first action sits: helps naming the failing class
    fn under_not(e: &Expr, neg: bool) -> Option<bool> {
        match e {
            Expr::Action(_) => Some(neg),
            Expr::Not(a) => under_not(a, true),
            Expr::Prec(a) => under_not(a, neg),
            Expr::And(a, b) | Expr::Or(a, b) | Expr::List(a, b) => under_not(a, neg).or_else(|| under_not(b, neg)),
            _ => None,
        }
    }
    match under_not(e, false) {
        None => "no-action",
        Some(true) => "action-under-negation",
        Some(false) => "action-present",
    }
}

pub fn check(tree: &Expr, acc: &mut Acc) {
    acc.states += 1;
    acc.transitions += 1;
    acc.validated += 1;
    let wit = || json!({"kind": "tree", "tree": tree});
    let real = conv::expr_to_real(tree).unwrap();
    let (text, io) = match compile_render(&real, &subject::options(false, None), "/dev") {
        C::Ok(v) => v,
        C::Err(e) => {
            acc.violate(Violation::new("C09:compile-refused", format!("{}: {e}", tree.show()), wit()));
            return;
        }
        C::Panic(p) => {
            acc.violate(Violation::new(format!("C09:panic:{}", panic_site(&p)), format!("{}: {p}", tree.show()), wit()));
            return;
        }
    };
    let recs = records();
    let obs = match observe(&text, &io, &recs) {
        Ok(o) => o,
        Err(e) => {
            acc.violate(Violation::new("C09:policy-runtime-failure", format!("{}: {e}", tree.show()), wit()));
            return;
        }
    };
    let has_action = tree.has_action();
    let pos = action_position(tree);
    for (i, r) in recs.iter().enumerate() {
        // find's rule, stated directly: no action anywhere => as if "( expr ) -a -print"
        let effective = if has_action { tree.clone() } else { Expr::and(tree.clone(), Expr::Action(Action::Print)) };
        let want = eval::eval(&effective, r, 1_700_000_000).unwrap();
        let got = coalesce(&obs.records[i].events);
        let w = coalesce(&want.events);
        acc.outcome(&(got.clone(), has_action));
        if got != w {
            let implicit = format!("{}\n", r.rel_path);
            let got_stdout: String = got.iter().filter(|e| e.dest.is_none()).map(|e| e.text.clone()).collect();
            let want_stdout: String = w.iter().filter(|e| e.dest.is_none()).map(|e| e.text.clone()).collect();
            let what = if !has_action && got.is_empty() {
                "implicit-print-missing"
            } else if !has_action {
                "implicit-print-not-for-whole-expression"
            } else if got_stdout.len() > want_stdout.len() && got_stdout.contains(&implicit) {
                "print-added-although-action-present"
            } else {
                "written-actions-output-differs"
            };
            acc.violate(Violation::new(
                format!("C09:{what}:{pos}"),
                format!("{} on file {:?}: policy wrote {got:?}; expected {w:?}", tree.show(), r.name),
                wit(),
            ));
            return;
        }
    }
    if tree.leaves() <= 2 {
        acc.sample(json!({"tree": tree.show(), "has_action": has_action}));
    }
}

pub fn run(ctx: &Ctx) -> i32 {
    let m = menu();
    let maxn = ctx.tier.pick(4, 5);
    let mut acc = Acc::new();
    for n in 1..=maxn {
        let shapes = trees::shapes(n);
        let total = trees::count(n, m.len() as u64);
        acc = acc.merge(par_cases(total, |i, acc| {
            let t = trees::nth(&shapes, n, &m, i);
            if n <= 3 {
                for v in negation_variants(&t) {
                    check(&v, acc);
                }
            } else {
                check(&t, acc);
                check(&Expr::not(t), acc);
            }
        }));
    }
    finish(
        ctx,
        acc,
        Finish {
            level: "model_checking",
            exhaustive: true,
            rule: "state = expression tree over {true, false, name test, print, quit, file print} and all operators; compiled by the real compile(), the policy executed by the runtime model on a matching and a non-matching file; expected output computed from find's rule stated directly (no action anywhere => ( expr ) -a -print; otherwise only the written actions); distinct = distinct (output, has-action) observations".into(),
            bound: format!("every tree with <= {maxn} leaves over 6 leaves x 3 binary operators; for <= 3 leaves every negation of each leaf and of the root, above that the tree and its negation"),
            assumptions: vec!["runtime model of DESIGN.md §3 (print-relative-path writes the path and a newline to standard output)".into()],
            extra: serde_json::Map::new(),
        },
    )
}

pub fn replay(w: &Value) -> Vec<Violation> {
    let mut acc = Acc::new();
    if let Ok(t) = serde_json::from_value::<Expr>(w["tree"].clone()) {
        check(&t, &mut acc);
    }
    acc.violations.into_values().map(|(v, _)| v).collect()
}
