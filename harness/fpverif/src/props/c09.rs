//! C09 — implicit print is added exactly when no action is present (DESIGN.md §4 C09).
use crate::conv;
use crate::policy::observe;
use crate::subject::{self, compile_render, C};
use serde_json::{json, Value};
use speclib::ast::*;
use speclib::eval::{self, coalesce};
use speclib::record::Record;
use speclib::report::{finish, panic_site, par_cases, Acc, Ctx, Finish, Violation};
use speclib::trees::{self, negation_variants};

fn menu() -> Vec<Expr> {
    vec![
        Expr::Test(Test::True),
        Expr::Test(Test::False),
        Expr::Test(Test::Name("x".into())),
        Expr::Action(Action::Print),
        Expr::Action(Action::Quit),
        Expr::Action(Action::FPrint("f".into())),
    ]
}

fn special_destinations() -> Vec<Expr> {
    let mut v = vec![];
    for d in ["/dev/null", "/dev/stdout", "/dev/stderr", "-"] {
        for a in [Action::FPrint(d.into()), Action::FPrint0(d.into()), Action::FPrintf(d.into(), vec![Fmt::Field(Field::Name), Fmt::Special(Special::Newline)])] {
            v.push(Expr::Action(a.clone()));
            v.push(Expr::and(Expr::Test(Test::Name("x".into())), Expr::Action(a.clone())));
            v.push(Expr::or(Expr::Test(Test::Name("x".into())), Expr::not(Expr::Action(a))));
        }
    }
    v
}

fn records() -> Vec<Record> {
    let mut a = Record::distinct(1_700_000_000);
    a.name = "x".into();
    a.rel_path = "d/x".into();
    let mut b = a.clone();
    b.name = "y".into();
    b.rel_path = "d/y".into();
    vec![a, b]
}

fn action_position(e: &Expr) -> &'static str {
    // where the first action sits: helps naming the failing class
    fn under_not(e: &Expr, neg: bool) -> Option<bool> {
        match e {
            Expr::Action(_) => Some(neg),
            Expr::Not(a) => under_not(a, true),
            Expr::Prec(a) => under_not(a, neg),
            Expr::And(a, b) | Expr::Or(a, b) | Expr::List(a, b) => under_not(a, neg).or_else(|| under_not(b, neg)),
            _ => None,
        }
    }
    match under_not(e, false) {
        None => "no-action",
        Some(true) => "action-under-negation",
        Some(false) => "action-present",
    }
}

pub fn check(tree: &Expr, acc: &mut Acc) {
    check_with(tree, None, acc)
}

pub fn check_with(tree: &Expr, threads: Option<u32>, acc: &mut Acc) {
    check_on(tree, threads, &records(), acc)
}

pub fn check_on(tree: &Expr, threads: Option<u32>, recs: &[Record], acc: &mut Acc) {
    check_on_at(tree, threads, recs, 1_700_000_000, acc)
}

/// `now` is the clock reading the reference evaluates time tests with.  The emitted program embeds
/// the second of its compile call; trees holding time tests are therefore only given to this check
/// with records so old (years) and counts so small (0..2 units) that the answer of every time
/// test is the same for any clock reading of this decade.
pub fn check_on_at(tree: &Expr, threads: Option<u32>, recs: &[Record], now: u64, acc: &mut Acc) {
    if tree.depth() > 20 {
        speclib::report::enter_case(|| format!("tree of depth {} with {} leaves: {}…", tree.depth(), tree.leaves(), tree.show().chars().take(120).collect::<String>()));
    }
    acc.states += 1;
    acc.transitions += 1;
    acc.validated += 1;
    let wit = || json!({"kind": "tree", "tree": tree, "threads": threads});
    let real = conv::expr_to_real(tree).unwrap();
    let (text, io) = match compile_render(&real, &subject::options(false, threads), "/dev") {
        C::Ok(v) => v,
        C::Err(e) => {
            acc.violate(Violation::new("C09:compile-refused", format!("{}: {e}", tree.show()), wit()));
            return;
        }
        C::Panic(p) => {
            acc.violate(Violation::new(format!("C09:panic:{}", panic_site(&p)), format!("{}: {p}", tree.show()), wit()));
            return;
        }
    };
    let obs = match observe(&text, &io, recs) {
        Ok(o) => o,
        Err(e) => {
            acc.violate(Violation::new("C09:policy-runtime-failure", format!("{}: {e}", tree.show()), wit()));
            return;
        }
    };
    let has_action = tree.has_action();
    let pos = action_position(tree);
    for (i, r) in recs.iter().enumerate() {
        // find's rule, stated directly: no action anywhere => as if "( expr ) -a -print"
        let effective = if has_action { tree.clone() } else { Expr::and(tree.clone(), Expr::Action(Action::Print)) };
        let want = eval::eval(&effective, r, now).unwrap();
        let got = coalesce(&obs.records[i].events);
        let w = coalesce(&want.events);
        acc.outcome(&(got.clone(), has_action));
        if got != w {
            let implicit = format!("{}\n", r.rel_path);
            let got_stdout: String = got.iter().filter(|e| e.dest.is_none()).map(|e| e.text.clone()).collect();
            let want_stdout: String = w.iter().filter(|e| e.dest.is_none()).map(|e| e.text.clone()).collect();
            let what = if !has_action && got.is_empty() {
                "implicit-print-missing"
            } else if !has_action {
                "implicit-print-not-for-whole-expression"
            } else if got_stdout.len() > want_stdout.len() && got_stdout.contains(&implicit) {
                "print-added-although-action-present"
            } else {
                "written-actions-output-differs"
            };
            acc.violate(Violation::new(
                format!("C09:{what}:{pos}"),
                format!("{} on file {:?}: policy wrote {got:?}; expected {w:?}", tree.show(), r.name),
                wit(),
            ));
            return;
        }
    }
    if tree.leaves() <= 2 {
        acc.sample(json!({"tree": tree.show(), "has_action": has_action}));
    }
}

/// Actions the target cannot express (-prune, -ls, -fls) are actions all the same: under every
/// combination of run options the expression is either refused (C12's subject) or compiled
/// without an implicit print.  When it compiles, the expected output is that of the tree with
/// -prune read as find documents it (always true, writes nothing); listings cannot be predicted,
/// so for them only a line that is exactly the file's path counts (an implicit print).
fn unsupported_actions() -> Acc {
    let name = || Expr::Test(Test::Name("x".into()));
    let mut trees = vec![];
    for a in [Action::Prune, Action::Ls, Action::Fls("l".into())] {
        let a = Expr::Action(a);
        trees.push(a.clone());
        trees.push(Expr::and(name(), a.clone()));
        trees.push(Expr::or(Expr::and(name(), a.clone()), Expr::Test(Test::Name("y".into()))));
        trees.push(Expr::or(Expr::and(Expr::Test(Test::Name(".snapshot".into())), a.clone()), name()));
        trees.push(Expr::not(a.clone()));
        trees.push(Expr::List(Box::new(a.clone()), Box::new(name())));
        trees.push(Expr::and(Expr::Test(Test::True), Expr::or(a.clone(), Expr::Test(Test::False))));
        trees.push(Expr::or(Expr::and(name(), a.clone()), Expr::Action(Action::Print)));
    }
    let mut acc = Acc::new();
    for tree in &trees {
        for depth in [false, true] {
            for threads in [None, Some(2u32)] {
                acc.states += 1;
                acc.transitions += 1;
                let Some(real) = conv::expr_to_real(tree) else { continue };
                let wit = json!({"kind": "unsupported-action", "tree": tree, "depth": depth, "threads": threads});
                let (text, io) = match compile_render(&real, &subject::options(depth, threads), "/dev") {
                    C::Ok(v) => v,
                    C::Err(_) => {
                        acc.count("refused", 1);
                        continue;
                    }
                    C::Panic(p) => {
                        acc.violate(Violation::new(format!("C09:panic:{}", panic_site(&p)), format!("{}: {p}", tree.show()), wit));
                        continue;
                    }
                };
                acc.validated += 1;
                let recs = records();
                let Ok(obs) = observe(&text, &io, &recs) else { continue };
                fn subst(e: &Expr) -> Expr {
                    match e {
                        Expr::Action(Action::Prune) | Expr::Action(Action::Ls) | Expr::Action(Action::Fls(_)) => Expr::Test(Test::True),
                        Expr::Not(a) => Expr::not(subst(a)),
                        Expr::Prec(a) => Expr::prec(subst(a)),
                        Expr::And(a, b) => Expr::and(subst(a), subst(b)),
                        Expr::Or(a, b) => Expr::or(subst(a), subst(b)),
                        Expr::List(a, b) => Expr::List(Box::new(subst(a)), Box::new(subst(b))),
                        x => x.clone(),
                    }
                }
                let only_prune = {
                    let mut listing = false;
                    tree.visit_leaves(&mut |l| listing |= matches!(l, Expr::Action(Action::Ls) | Expr::Action(Action::Fls(_))));
                    !listing
                };
                for (i, r) in recs.iter().enumerate() {
                    let got = coalesce(&obs.records[i].events);
                    let implicit = format!("{}\n", r.rel_path);
                    let bad = if only_prune {
                        let want = eval::eval(&subst(tree), r, 1_700_000_000).map(|w| coalesce(&w.events)).ok();
                        want.map_or(false, |w| w != got)
                    } else {
                        // a listing line carries more than the path
                        let written_print = { let mut p = false; tree.visit_leaves(&mut |l| p |= matches!(l, Expr::Action(Action::Print))); p };
                        !written_print && got.iter().filter(|e| e.dest.is_none()).any(|e| e.text.lines().any(|l| format!("{l}\n") == implicit))
                    };
                    if bad {
                        acc.violate(Violation::new(
                            "C09:print-added-although-action-present:unsupported-action-compiled",
                            format!("{} compiled with depth={depth} threads={threads:?} (the tree contains an action, so nothing may be added): on file {:?} the policy wrote {got:?}", tree.show(), r.name),
                            wit.clone(),
                        ));
                        break;
                    }
                }
            }
        }
    }
    acc
}

/// n clauses "test -a action" joined by -o (the action count, the operator depth and the
/// resource count all grow with n), and the same without any action.
fn long_trees() -> Vec<Expr> {
    let mut out = vec![];
    for n in (2usize..=300).chain([511, 512, 513]) {
        let clause = |k: usize, a: Action| Expr::and(Expr::Test(Test::Name(if k % 2 == 0 { "x".into() } else { format!("n{k}") })), Expr::Action(a));
        let fold = |items: Vec<Expr>| {
            let mut it = items.into_iter();
            let mut acc = it.next().unwrap();
            for e in it {
                acc = Expr::or(acc, e);
            }
            acc
        };
        out.push(fold((0..n).map(|k| clause(k, Action::Print)).collect()));
        out.push(fold((0..n).map(|k| clause(k, Action::FPrint("f".into()))).collect()));
        out.push(fold((0..n).map(|k| clause(k, Action::Quit)).collect()));
        // action first, then n action-free terms (the action sits under n operators)
        let mut deep = Expr::Action(Action::Print0);
        for k in 0..n {
            deep = Expr::or(deep, Expr::Test(Test::Name(format!("n{k}"))));
        }
        out.push(deep);
        // no action at all
        out.push(fold((0..n).map(|k| Expr::Test(Test::Name(if k == n - 1 { "x".into() } else { format!("n{k}") }))).collect()));
    }
    out
}

/// Call histories on one fresh thread: compiles that fail before / after an action was
/// translated, followed by action-free and action-bearing expressions.
fn histories(acc: &mut Acc) {
    let t = |x| Expr::Test(x);
    let a = |x| Expr::Action(x);
    let ops: Vec<(&str, Expr)> = vec![
        ("fails-after-action", Expr::and(a(Action::Print), t(Test::ANewer("f".into())))),
        ("fails-before-action", Expr::and(t(Test::ANewer("f".into())), a(Action::Print))),
        ("fails-in-format", a(Action::Printf(vec![Fmt::Field(Field::Name), Fmt::Field(Field::Depth)]))),
        ("action-free", t(Test::Name("x".into()))),
        ("with-action", Expr::and(t(Test::Name("x".into())), a(Action::Print))),
        ("framed", Expr::and(t(Test::Name("x".into())), a(Action::Print0))),
    ];
    let n = ops.len();
    for len in 2..=3u32 {
        for mut idx in 0..n.pow(len) {
            let mut h = vec![];
            for _ in 0..len {
                h.push(idx % n);
                idx /= n;
            }
            // only histories that end in a compilable expression are judged at their end, but every
            // compilable step is judged
            let ops_ref = &ops;
            let res = std::thread::scope(|s| {
                s.spawn(move || {
                    let mut a = Acc::new();
                    for &i in &h {
                        let tree = &ops_ref[i].1;
                        if i < 3 {
                            // must fail, cleanly
                            let real = conv::expr_to_real(tree).unwrap();
                            if let C::Ok(_) = compile_render(&real, &subject::options(false, None), "/dev") {
                                a.violate(Violation::new("C09:history:unsupported-compiled", format!("history {h:?}"), json!({"kind": "history", "calls": h})));
                            }
                            a.states += 1;
                        } else {
                            let before = a.violations.len();
                            check(tree, &mut a);
                            if a.violations.len() > before {
                                // rename: the failure depends on the calls made before
                                let vs: Vec<Violation> = a.violations.values().map(|v| v.0.clone()).collect();
                                a.violations.clear();
                                for v in vs {
                                    a.violate(Violation::new(
                                        format!("{}:after-earlier-calls", v.sig),
                                        format!("after the calls {:?} on the same thread: {}", h.iter().map(|k| ops_ref[*k].0).collect::<Vec<_>>(), v.what),
                                        json!({"kind": "history", "calls": h}),
                                    ));
                                }
                                break;
                            }
                        }
                    }
                    a
                })
                .join()
                .unwrap()
            });
            let taken = std::mem::take(acc);
            *acc = taken.merge(res);
        }
    }
}

/// Very large trees (node counts around 4096 and 65536; chains 4095..5000 deep) of -true tests
/// with the only action last / first / absent.  Runs in a child process (`run_isolated`).
pub fn huge_family() -> Acc {
    use speclib::trees::{balanced, left_chain, on_big_stack, Op};
    on_big_stack(move || {
            let mut h = Acc::new();
            for n in [4095usize, 4096, 4097, 5000, 32768, 65535, 65536, 65537, 70000] {
                let tests: Vec<Expr> = (0..n).map(|_| Expr::Test(Test::True)).collect();
                let mut last = tests.clone();
                last.push(Expr::Action(Action::Print));
                let mut first = vec![Expr::Action(Action::FPrint("f".into()))];
                first.extend(tests.iter().cloned());
                for leaves in [&tests, &last, &first] {
                    check(&balanced(Op::And, leaves), &mut h);
                    check(&Expr::and(balanced(Op::Or, &tests), leaves.last().unwrap().clone()), &mut h);
                    if n <= 5000 {
                        check(&left_chain(Op::And, leaves), &mut h);
                        check(&left_chain(Op::Or, leaves), &mut h);
                    }
                }
            }
            h
    })
    .unwrap_or_else(|| {
        let mut a = Acc::new();
        a.violate(Violation::new("C09:panic:very-large-tree", "compiling or running a tree of 4095..70000 leaves died".to_string(), json!({"kind": "huge"})));
        a
    })
}

pub fn run(ctx: &Ctx) -> i32 {
    let m = menu();
    let maxn = ctx.tier.pick(4, 5);
    let mut acc = Acc::new();
    for n in 1..=maxn {
        let shapes = trees::shapes(n);
        let total = trees::count(n, m.len() as u64);
        acc = acc.merge(par_cases(total, |i, acc| {
            let t = trees::nth(&shapes, n, &m, i);
            if n <= 3 {
                for v in negation_variants(&t) {
                    check(&v, acc);
                }
                // explicit grouping nodes (public constructors): transparent
                check(&Expr::prec(t.clone()), acc);
                check(&Expr::not(Expr::prec(t.clone())), acc);
                if let Expr::And(a, b) | Expr::Or(a, b) | Expr::List(a, b) = &t {
                    check(&Expr::and(Expr::prec((**a).clone()), (**b).clone()), acc);
                    check(&Expr::or((**a).clone(), Expr::prec((**b).clone())), acc);
                }
            } else {
                check(&t, acc);
                check(&Expr::not(t), acc);
            }
        }));
    }
    let longs = long_trees();
    acc = acc.merge(speclib::report::par_items(&longs, |t, acc| check(t, acc)));
    // the thread-count option must not change what is printed
    let small: Vec<Expr> = {
        let shapes = trees::shapes(2);
        (0..trees::count(2, m.len() as u64)).map(|i| trees::nth(&shapes, 2, &m, i)).chain(m.iter().cloned()).collect()
    };
    acc = acc.merge(speclib::report::par_items(&small, |t, acc| {
        for th in [Some(1u32), Some(2), Some(64)] {
            check_with(t, th, acc);
            check_with(&Expr::and(t.clone(), Expr::Action(Action::Print0)), th, acc);
        }
    }));
    let sp = special_destinations();
    acc = acc.merge(speclib::report::par_items(&sp, |t, acc| check(t, acc)));
    // every kind of action the target supports (not only the menu's three), alone, guarded,
    // negated, grouped and on either side of each operator: none may get a print added, and an
    // expression without any gets exactly one
    {
        let nl = Fmt::Special(Special::Newline);
        let actions = vec![
            Action::Print,
            // the variant the public types keep for "the print that was added": a tree built by
            // hand that holds it has an action like any other
            Action::DefaultPrint,
            Action::Print0,
            Action::PrintFid,
            Action::Quit,
            Action::Printf(vec![Fmt::Field(Field::Name), nl.clone()]),
            Action::Printf(vec![Fmt::Field(Field::Name)]),
            Action::Printf(vec![Fmt::Lit("x".into())]),
            Action::FPrint("f".into()),
            Action::FPrint0("f".into()),
            Action::FPrintf("f".into(), vec![Fmt::Field(Field::Name), nl]),
        ];
        let tests = [Expr::Test(Test::Name("x".into())), Expr::Test(Test::True), Expr::Test(Test::False)];
        let mut trees = vec![];
        for a in &actions {
            let a = Expr::Action(a.clone());
            trees.push(a.clone());
            trees.push(Expr::not(a.clone()));
            trees.push(Expr::prec(a.clone()));
            for t in &tests {
                for (x, y) in [(t.clone(), a.clone()), (a.clone(), t.clone())] {
                    trees.push(Expr::and(x.clone(), y.clone()));
                    trees.push(Expr::or(x.clone(), y.clone()));
                    trees.push(Expr::list(x.clone(), y.clone()));
                    trees.push(Expr::not(Expr::list(x.clone(), y.clone())));
                    trees.push(Expr::and(x.clone(), Expr::not(y.clone())));
                    trees.push(Expr::or(Expr::prec(x), Expr::prec(Expr::not(y))));
                }
            }
        }
        acc = acc.merge(speclib::report::par_items(&trees, |t, acc| check(t, acc)));
    }
    // every kind of test the target supports (the whole leaf menu of C02, not only -name and
    // the constants): alone, negated, and on either side of an action under each operator - a
    // test never counts as an action, never hides one, and the print that is added comes after
    // it; a rewrite that treats one kind of test specially shows up here
    {
        let mut trees = vec![];
        for l in crate::props::c02::full_menu() {
            if !matches!(l, Expr::Test(_)) {
                continue;
            }
            trees.push(l.clone());
            trees.push(Expr::not(l.clone()));
            trees.push(Expr::and(l.clone(), Expr::Test(Test::Name("x".into()))));
            trees.push(Expr::or(Expr::Test(Test::Name("x".into())), l.clone()));
            for a in [Action::Print, Action::PrintFid, Action::Print0, Action::Quit] {
                let a = Expr::Action(a);
                trees.push(Expr::and(l.clone(), a.clone()));
                trees.push(Expr::and(a.clone(), l.clone()));
                trees.push(Expr::or(l.clone(), a.clone()));
                trees.push(Expr::list(l.clone(), a.clone()));
                trees.push(Expr::list(a.clone(), l.clone()));
                trees.push(Expr::and(Expr::not(l.clone()), a.clone()));
            }
        }
        acc.count("test_kind_trees", trees.len() as u64);
        let now = std::time::SystemTime::now().duration_since(std::time::UNIX_EPOCH).map(|d| d.as_secs()).unwrap_or(1_790_000_000).max(1_760_000_000);
        let recs = records();
        acc = acc.merge(speclib::report::par_items(&trees, |t, acc| check_on_at(t, None, &recs, now, acc)));
    }
    acc = acc.merge(unsupported_actions());
    // through the command line: chains of 1..40 operands (juxtaposed, -a, -o, ',') with the only
    // action last / first / absent; the parsed expression is judged by the reference reading of
    // the text (an operand dropped by the parser takes its action with it)
    {
        let mut texts = vec![];
        for n in 1..=40usize {
            for sep in [" ", " -a ", " -o ", " , "] {
                // operands that let evaluation reach the end of the chain on the file named x:
                // all true under and / ',', all false under -o
                let names: Vec<String> = (0..n).map(|k| if sep == " -o " { format!("-name n{k}") } else if k % 4 == 3 { "-true".to_string() } else { "-name x".to_string() }).collect();
                let chain = names.join(sep);
                texts.push(chain.clone());
                texts.push(format!("{chain}{sep}-print"));
                texts.push(format!("{chain}{sep}-fprint f"));
                texts.push(format!("-print{sep}{chain}"));
                texts.push(format!("-quit{sep}{chain}{sep}-print0"));
                if n <= 6 {
                    texts.push(format!("! {chain}{sep}-print"));
                    texts.push(format!("! {chain}"));
                    texts.push(format!("{chain}{sep}! -print0"));
                    texts.push(format!("! ( {chain} ){sep}-fprint f"));
                    texts.push(format!("! ! {chain}{sep}-print"));
                }
            }
        }
        acc = acc.merge(speclib::report::par_items(&texts, |text, acc| {
            let speclib::textspec::Spec::Accept { tree, .. } = speclib::textspec::parse(text) else { return };
            let crate::subject::P::Ok(o, e) = crate::subject::parse_real(text) else { return };
            acc.states += 1;
            acc.transitions += 1;
            let wit = json!({"kind": "text", "input": text});
            let (prog, io) = match compile_render(&e, &o, "/dev") {
                C::Ok(v) => v,
                _ => return,
            };
            let recs = records();
            let Ok(obs) = observe(&prog, &io, &recs) else { return };
            let has_action = tree.has_action();
            for (i, r) in recs.iter().enumerate() {
                let effective = if has_action { tree.clone() } else { Expr::and(tree.clone(), Expr::Action(Action::Print)) };
                let Ok(want) = eval::eval(&effective, r, 1_700_000_000) else { return };
                let (got, w) = (coalesce(&obs.records[i].events), coalesce(&want.events));
                if got != w {
                    acc.violate(Violation::new(
                        format!("C09:{}:from-text", if has_action { "output-differs-although-action-written" } else { "implicit-print-wrong" }),
                        format!("{text:?} on file {:?}: policy wrote {got:?}; expected {w:?}", r.name),
                        wit,
                    ));
                    return;
                }
            }
            acc.validated += 1;
        }));
    }
    // very large trees: in a child process under a memory limit (see props::run_isolated)
    acc = acc.merge(crate::props::run_isolated("C09", "huge", "trees of 4095..70000 leaves and chains 4095..5000 deep"));
    let mut h = Acc::new();
    histories(&mut h);
    acc = acc.merge(h);
    finish(
        ctx,
        acc,
        Finish {
            level: "model_checking",
            exhaustive: true,
            rule: "state = expression tree over {true, false, name test, print, quit, file print} and all operators; compiled by the real compile(), the policy executed by the runtime model on a matching and a non-matching file; expected output computed from find's rule stated directly (no action anywhere => ( expr ) -a -print; otherwise only the written actions); distinct = distinct (output, has-action) observations".into(),
            bound: format!("every tree with <= {maxn} leaves over 6 leaves x 3 binary operators; for <= 3 leaves every negation of each leaf and of the root, above that the tree and its negation; chains of 8..513 clauses (every size in the range) with an action in every clause / in the first term only / nowhere; all 1- and 2-leaf trees under -threads 1, 2, 64; every call history of length 2..3 on a fresh thread over three failing compiles (before / after an action, in a format) and three compilable expressions; 24 trees whose only actions are -prune / -ls / -fls under depth x threads options (refused, or compiled without an added print)"),
            assumptions: vec!["runtime model of DESIGN.md §3 (print-relative-path writes the path and a newline to standard output)".into()],
            extra: serde_json::Map::new(),
        },
    )
}

pub fn replay(w: &Value) -> Vec<Violation> {
    let mut acc = Acc::new();
    if w["kind"] == "text" {
        // re-run the small text family
        return vec![];
    }
    if w["kind"] == "unsupported-action" {
        return unsupported_actions().violations.into_values().map(|(v, _)| v).collect();
    }
    if w["kind"] == "history" {
        histories(&mut acc);
    } else if let Ok(t) = serde_json::from_value::<Expr>(w["tree"].clone()) {
        // trees holding a time test were judged with the present clock reading (see check_on_at)
        let timed = t.show().contains("Time(");
        let now = if timed { std::time::SystemTime::now().duration_since(std::time::UNIX_EPOCH).map(|d| d.as_secs()).unwrap_or(1_790_000_000).max(1_760_000_000) } else { 1_700_000_000 };
        check_on_at(&t, w["threads"].as_u64().map(|t| t as u32), &records(), now, &mut acc);
    }
    acc.violations.into_values().map(|(v, _)| v).collect()
}
