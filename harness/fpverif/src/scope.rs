//! Scope analysis of an emitted program read back as datums (property C11, parts 1 and 2).
use speclib::scm::eval::{CORE, LIPE_CORE, LIPE_FIND, SPECIAL_FORMS};
use speclib::scm::reader::{Datum, Node};
use std::collections::{BTreeMap, BTreeSet};

#[derive(Default, Debug)]
pub struct Scopes {
    /// name -> number of binding occurrences in the whole program
    pub bound: BTreeMap<String, usize>,
    pub problems: Vec<String>,
}

fn collect_bound(n: &Node, out: &mut BTreeMap<String, usize>) {
    if let Datum::List(items) = &n.d {
        match n.head() {
            Some("let*") | Some("let") | Some("letrec") | Some("letrec*") if items.len() >= 2 => {
                if let Some(bs) = items[1].as_list() {
                    for b in bs {
                        if let Some(p) = b.as_list() {
                            if let Some(name) = p.first().and_then(|x| x.as_sym()) {
                                *out.entry(name.to_string()).or_insert(0) += 1;
                            }
                        }
                    }
                }
            }
            Some("lambda") if items.len() >= 2 => match &items[1].d {
                Datum::List(ps) => {
                    for p in ps {
                        if let Some(name) = p.as_sym() {
                            *out.entry(name.to_string()).or_insert(0) += 1;
                        }
                    }
                }
                Datum::Sym(s) => *out.entry(s.clone()).or_insert(0) += 1,
                _ => {}
            },
            Some("quote") => return,
            _ => {}
        }
        for i in items {
            collect_bound(i, out);
        }
    }
}

fn collect_let_bound(n: &Node, out: &mut BTreeMap<String, usize>) {
    if let Datum::List(items) = &n.d {
        if matches!(n.head(), Some("let*") | Some("let") | Some("letrec") | Some("letrec*")) && items.len() >= 2 {
            if let Some(bs) = items[1].as_list() {
                for b in bs {
                    if let Some(name) = b.as_list().and_then(|p| p.first()).and_then(|x| x.as_sym()) {
                        *out.entry(name.to_string()).or_insert(0) += 1;
                    }
                }
            }
        }
        if n.head() == Some("quote") {
            return;
        }
        for i in items {
            collect_let_bound(i, out);
        }
    }
}

pub fn analyse(forms: &[Node]) -> Scopes {
    let mut sc = Scopes::default();
    for f in forms {
        collect_bound(f, &mut sc.bound);
    }
    // names bound by let-forms live in one scope chain: each must be bound once.  Parameters of
    // sibling lambdas may repeat (they are not generated); shadowing is checked during the walk.
    let mut let_bound: BTreeMap<String, usize> = BTreeMap::new();
    for f in forms {
        collect_let_bound(f, &mut let_bound);
    }
    for (name, n) in &let_bound {
        if *n > 1 {
            sc.problems.push(format!("{name} is bound {n} times"));
        }
    }
    let known: BTreeSet<&str> = CORE.iter().chain(LIPE_CORE).chain(LIPE_FIND).chain(SPECIAL_FORMS).copied().collect();
    let mut scope: Vec<String> = vec![];
    let bound = sc.bound.clone();
    for f in forms {
        walk(f, &mut scope, &bound, &known, &mut sc.problems);
    }
    sc
}

fn reference(name: &str, scope: &[String], bound: &BTreeMap<String, usize>, known: &BTreeSet<&str>, problems: &mut Vec<String>) {
    if bound.contains_key(name) {
        if !scope.iter().any(|s| s == name) {
            problems.push(format!("{name} is used outside of (or before) its binding"));
        }
    } else if !known.contains(name) {
        problems.push(format!("{name} is neither bound in the program nor a runtime procedure"));
    }
}

fn walk(n: &Node, scope: &mut Vec<String>, bound: &BTreeMap<String, usize>, known: &BTreeSet<&str>, problems: &mut Vec<String>) {
    match &n.d {
        Datum::Sym(s) => reference(s, scope, bound, known, problems),
        Datum::List(items) => {
            let shadowed = n.head().map_or(false, |h| scope.iter().any(|s| s == h));
            match n.head() {
                Some("quote") | Some("use-modules") if !shadowed => {}
                Some(h @ ("let*" | "let" | "letrec" | "letrec*")) if !shadowed && items.len() >= 2 => {
                    let depth = scope.len();
                    let mut later = vec![];
                    if let Some(bs) = items[1].as_list() {
                        if h.starts_with("letrec") {
                            for b in bs {
                                if let Some(name) = b.as_list().and_then(|p| p.first()).and_then(|x| x.as_sym()) {
                                    scope.push(name.to_string());
                                }
                            }
                        }
                        for b in bs {
                            if let Some(p) = b.as_list() {
                                if p.len() == 2 {
                                    walk(&p[1], scope, bound, known, problems);
                                    if let Some(name) = p[0].as_sym() {
                                        if h == "let*" {
                                            scope.push(name.to_string());
                                        } else if h == "let" {
                                            later.push(name.to_string());
                                        }
                                    }
                                }
                            }
                        }
                    }
                    scope.extend(later);
                    for b in &items[2..] {
                        walk(b, scope, bound, known, problems);
                    }
                    scope.truncate(depth);
                }
                Some("lambda") if !shadowed && items.len() >= 2 => {
                    let depth = scope.len();
                    let mut params = vec![];
                    match &items[1].d {
                        Datum::List(ps) => {
                            for p in ps {
                                if let Some(name) = p.as_sym() {
                                    params.push(name.to_string());
                                }
                            }
                        }
                        Datum::Sym(s) => params.push(s.clone()),
                        _ => {}
                    }
                    for (i, p) in params.iter().enumerate() {
                        if scope.iter().any(|s| s == p) || params[..i].contains(p) {
                            problems.push(format!("{p} is bound 2 times (a lambda parameter shadows a binding in scope)"));
                        }
                    }
                    scope.extend(params);
                    for b in &items[2..] {
                        walk(b, scope, bound, known, problems);
                    }
                    scope.truncate(depth);
                }
                _ => {
                    for i in items {
                        walk(i, scope, bound, known, problems);
                    }
                }
            }
        }
        _ => {}
    }
}

/// Occurrences, in document order, of program-bound names inside `n` (binding occurrences of
/// nested lambdas excluded).
pub fn bound_refs(n: &Node, bound: &BTreeMap<String, usize>, out: &mut Vec<String>) {
    match &n.d {
        Datum::Sym(s) => {
            if bound.contains_key(s) {
                out.push(s.clone());
            }
        }
        Datum::List(items) => {
            let skip_params = n.head() == Some("lambda");
            for (i, it) in items.iter().enumerate() {
                if skip_params && i == 1 {
                    continue;
                }
                bound_refs(it, bound, out);
            }
        }
        _ => {}
    }
}
