//! Structural access to an emitted policy program (through the independent reader) and
//! execution in the runtime model.
use speclib::record::Record;
use speclib::scm::eval::{display, Ctl, Interp, RecOutcome, SeqHost, Val};
use speclib::scm::reader::{read_all, Node};

pub struct Prog {
    pub forms: Vec<Node>,
}

#[derive(Debug, Clone)]
pub struct Shape {
    pub modules: Vec<String>,
    /// (name, initialiser) of the let* in order
    pub bindings: Vec<(String, Node)>,
    pub scan_args: Vec<Node>,
}

impl Prog {
    pub fn read(text: &str) -> Result<Prog, String> {
        Ok(Prog { forms: read_all(text).map_err(|e| e.to_string())? })
    }

    /// The two expected top-level forms and the scan call; an error string describes the first
    /// structural expectation that fails.
    pub fn shape(&self) -> Result<Shape, String> {
        if self.forms.len() != 2 {
            return Err(format!("expected 2 top-level forms, found {}", self.forms.len()));
        }
        if self.forms[0].head() != Some("use-modules") {
            return Err("first form is not (use-modules …)".into());
        }
        let modules = self.forms[0].as_list().unwrap()[1..].iter().map(|n| n.show()).collect();
        let l = self.forms[1].as_list().ok_or("second form is not a list")?;
        if self.forms[1].head() != Some("let*") || l.len() < 3 {
            return Err("second form is not (let* (…) body)".into());
        }
        let mut bindings = vec![];
        for b in l[1].as_list().ok_or("let* bindings are not a list")? {
            let p = b.as_list().filter(|p| p.len() == 2).ok_or_else(|| format!("malformed binding {}", b.show()))?;
            let name = p[0].as_sym().ok_or("binding name is not a symbol")?;
            bindings.push((name.to_string(), p[1].clone()));
        }
        let mut scans = vec![];
        for f in &l[2..] {
            f.walk(&mut |n| {
                if n.head() == Some("lipe-scan") {
                    scans.push(n.clone());
                }
            });
        }
        if scans.len() != 1 {
            return Err(format!("expected exactly one (lipe-scan …) call, found {}", scans.len()));
        }
        let args = scans[0].as_list().unwrap()[1..].to_vec();
        if args.len() != 5 {
            return Err(format!("lipe-scan called with {} arguments", args.len()));
        }
        Ok(Shape { modules, bindings, scan_args: args })
    }
}

#[derive(Debug, Clone)]
pub struct RunOut {
    pub outcomes: Vec<RecOutcome>,
    /// (record index, port, text, guarded) in program order; record index usize::MAX outside records
    pub writes: Vec<(usize, usize, String, bool)>,
    /// port -> file name
    pub files: Vec<(usize, String, String)>,
    pub closed: Vec<usize>,
    pub unguarded: Vec<(usize, String)>,
    pub device: String,
    pub threads: String,
    pub scans: usize,
}

/// Execute the whole program in the runtime model over `records`.
pub fn run(text: &str, records: &[Record]) -> Result<RunOut, String> {
    let forms = read_all(text).map_err(|e| e.to_string())?;
    run_forms(&forms, records)
}

pub fn run_forms(forms: &[Node], records: &[Record]) -> Result<RunOut, String> {
    let mut host = SeqHost::new();
    let (outcomes, device, threads, scans) = {
        let mut it = Interp::new(&mut host);
        it.records = records.to_vec();
        it.continue_after_break = true;
        match it.run_forms(forms) {
            Ok(_) => {}
            Err(Ctl::Error(e)) => return Err(e),
            Err(Ctl::Break) => return Err("scan break outside of a scan".into()),
        }
        match it.scans.len() {
            0 => (vec![], String::new(), String::new(), 0),
            n => {
                let s = &it.scans[0];
                let dev = match &s.device {
                    Val::Str(d) => d.to_string(),
                    o => display(o),
                };
                (s.outcomes.clone(), dev, display(&s.threads), n)
            }
        }
    };
    if !host.held.is_empty() {
        return Err(format!("mutexes still held at exit: {:?}", host.held));
    }
    Ok(RunOut {
        outcomes,
        writes: host.writes,
        files: host.files,
        closed: host.closed,
        unguarded: host.unguarded,
        device,
        threads,
        scans,
    })
}
