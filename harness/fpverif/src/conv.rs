//! Conversion between the subject's public AST and the spec-side AST, through the public enums
//! only.  Nothing here interprets anything: it is a 1:1 relabelling.
use lipe_find_parser::ast as r;
use lipe_find_parser::Mode;
use speclib::ast as s;
use std::rc::Rc;

fn cmp_time(c: &r::Comparison<r::TimeSpec>) -> (s::Cmp, u64, s::TimeUnit) {
    let (k, t) = match c {
        r::Comparison::GreaterThan(t) => (s::Cmp::Gt, t),
        r::Comparison::LesserThan(t) => (s::Cmp::Lt, t),
        r::Comparison::Equal(t) => (s::Cmp::Eq, t),
    };
    let (n, u) = match t {
        r::TimeSpec::Second(n) => (*n, s::TimeUnit::Sec),
        r::TimeSpec::Minute(n) => (*n, s::TimeUnit::Min),
        r::TimeSpec::Hour(n) => (*n, s::TimeUnit::Hour),
        r::TimeSpec::Day(n) => (*n, s::TimeUnit::Day),
    };
    (k, n, u)
}

fn cmp_num<T: Copy + Into<u64>>(c: &r::Comparison<T>) -> (s::Cmp, u64) {
    match c {
        r::Comparison::GreaterThan(t) => (s::Cmp::Gt, (*t).into()),
        r::Comparison::LesserThan(t) => (s::Cmp::Lt, (*t).into()),
        r::Comparison::Equal(t) => (s::Cmp::Eq, (*t).into()),
    }
}

pub fn size_from_real(z: &r::Size) -> (u64, s::SizeUnit) {
    match z {
        r::Size::Byte(n) => (*n, s::SizeUnit::Byte),
        r::Size::Word(n) => (*n, s::SizeUnit::Word),
        r::Size::Block(n) => (*n, s::SizeUnit::Block),
        r::Size::KiloByte(n) => (*n, s::SizeUnit::Kilo),
        r::Size::MegaByte(n) => (*n, s::SizeUnit::Mega),
        r::Size::GigaByte(n) => (*n, s::SizeUnit::Giga),
        r::Size::TeraByte(n) => (*n, s::SizeUnit::Tera),
    }
}

pub fn size_to_real(n: u64, u: s::SizeUnit) -> r::Size {
    match u {
        s::SizeUnit::Byte => r::Size::Byte(n),
        s::SizeUnit::Word => r::Size::Word(n),
        s::SizeUnit::Block => r::Size::Block(n),
        s::SizeUnit::Kilo => r::Size::KiloByte(n),
        s::SizeUnit::Mega => r::Size::MegaByte(n),
        s::SizeUnit::Giga => r::Size::GigaByte(n),
        s::SizeUnit::Tera => r::Size::TeraByte(n),
    }
}

pub fn time_to_real(n: u64, u: s::TimeUnit) -> r::TimeSpec {
    match u {
        s::TimeUnit::Sec => r::TimeSpec::Second(n),
        s::TimeUnit::Min => r::TimeSpec::Minute(n),
        s::TimeUnit::Hour => r::TimeSpec::Hour(n),
        s::TimeUnit::Day => r::TimeSpec::Day(n),
    }
}

fn ftype(t: &r::FileType) -> s::FType {
    match t {
        r::FileType::Block => s::FType::Block,
        r::FileType::Character => s::FType::Char,
        r::FileType::Directory => s::FType::Dir,
        r::FileType::Pipe => s::FType::Pipe,
        r::FileType::File => s::FType::File,
        r::FileType::Link => s::FType::Link,
        r::FileType::Socket => s::FType::Sock,
    }
}

fn ftype_to_real(t: s::FType) -> r::FileType {
    match t {
        s::FType::Block => r::FileType::Block,
        s::FType::Char => r::FileType::Character,
        s::FType::Dir => r::FileType::Directory,
        s::FType::Pipe => r::FileType::Pipe,
        s::FType::File => r::FileType::File,
        s::FType::Link => r::FileType::Link,
        s::FType::Sock => r::FileType::Socket,
    }
}

pub fn special(x: &r::FormatSpecial) -> s::Special {
    match x {
        r::FormatSpecial::Alarm => s::Special::Alarm,
        r::FormatSpecial::Backspace => s::Special::Backspace,
        r::FormatSpecial::Clear => s::Special::Clear,
        r::FormatSpecial::Form => s::Special::Form,
        r::FormatSpecial::Newline => s::Special::Newline,
        r::FormatSpecial::CarriageReturn => s::Special::CarriageReturn,
        r::FormatSpecial::TabHorizontal => s::Special::Tab,
        r::FormatSpecial::TabVertical => s::Special::VTab,
        r::FormatSpecial::Null => s::Special::Null,
        r::FormatSpecial::Backslash => s::Special::Backslash,
        r::FormatSpecial::Ascii(v) => s::Special::Ascii(*v),
    }
}

fn special_to_real(x: &s::Special) -> r::FormatSpecial {
    match x {
        s::Special::Alarm => r::FormatSpecial::Alarm,
        s::Special::Backspace => r::FormatSpecial::Backspace,
        s::Special::Clear => r::FormatSpecial::Clear,
        s::Special::Form => r::FormatSpecial::Form,
        s::Special::Newline => r::FormatSpecial::Newline,
        s::Special::CarriageReturn => r::FormatSpecial::CarriageReturn,
        s::Special::Tab => r::FormatSpecial::TabHorizontal,
        s::Special::VTab => r::FormatSpecial::TabVertical,
        s::Special::Null => r::FormatSpecial::Null,
        s::Special::Backslash => r::FormatSpecial::Backslash,
        s::Special::Ascii(v) => r::FormatSpecial::Ascii(*v),
    }
}

pub fn field(x: &r::FormatField) -> s::Field {
    use r::FormatField as F;
    match x {
        F::Percent => s::Field::Percent,
        F::Access => s::Field::Access,
        F::AccessFormatted(c) => s::Field::AccessFmt(*c),
        F::DiskSizeBlocks => s::Field::DiskBlocks,
        F::Change => s::Field::Change,
        F::ChangeFormatted(c) => s::Field::ChangeFmt(*c),
        F::Depth => s::Field::Depth,
        F::DeviceNumber => s::Field::DevNum,
        F::Basename => s::Field::Basename,
        F::FsType => s::Field::FsType,
        F::Group => s::Field::Group,
        F::GroupId => s::Field::GroupId,
        F::Parents => s::Field::Parents,
        F::StartingPoint => s::Field::StartingPoint,
        F::InodeDecimal => s::Field::Inode,
        F::DiskSizeKilos => s::Field::DiskKilos,
        F::SymbolicTarget => s::Field::SymTarget,
        F::PermissionsOctal => s::Field::PermOctal,
        F::PermissionsSymbolic => s::Field::PermSymbolic,
        F::Hardlinks => s::Field::Hardlinks,
        F::Name => s::Field::Name,
        F::NameWithoutStartingPoint => s::Field::NameNoStart,
        F::DiskSizeBytes => s::Field::SizeBytes,
        F::Sparseness => s::Field::Sparseness,
        F::Modify => s::Field::Modify,
        F::ModifyFormatted(c) => s::Field::ModifyFmt(*c),
        F::User => s::Field::User,
        F::UserId => s::Field::UserId,
        F::Type => s::Field::Type,
        F::TypeSymlink => s::Field::TypeSymlink,
        F::SecurityContext => s::Field::SecContext,
        F::FileId => s::Field::FileId,
        F::ProjectId => s::Field::ProjectId,
        F::MirrorCount => s::Field::MirrorCount,
        F::StripeCount => s::Field::StripeCount,
        F::StripeSize => s::Field::StripeSize,
        F::XAttr(n) => s::Field::XAttr(n.clone()),
    }
}

fn field_to_real(x: &s::Field) -> r::FormatField {
    use r::FormatField as F;
    match x {
        s::Field::Percent => F::Percent,
        s::Field::Access => F::Access,
        s::Field::AccessFmt(c) => F::AccessFormatted(*c),
        s::Field::DiskBlocks => F::DiskSizeBlocks,
        s::Field::Change => F::Change,
        s::Field::ChangeFmt(c) => F::ChangeFormatted(*c),
        s::Field::Depth => F::Depth,
        s::Field::DevNum => F::DeviceNumber,
        s::Field::Basename => F::Basename,
        s::Field::FsType => F::FsType,
        s::Field::Group => F::Group,
        s::Field::GroupId => F::GroupId,
        s::Field::Parents => F::Parents,
        s::Field::StartingPoint => F::StartingPoint,
        s::Field::Inode => F::InodeDecimal,
        s::Field::DiskKilos => F::DiskSizeKilos,
        s::Field::SymTarget => F::SymbolicTarget,
        s::Field::PermOctal => F::PermissionsOctal,
        s::Field::PermSymbolic => F::PermissionsSymbolic,
        s::Field::Hardlinks => F::Hardlinks,
        s::Field::Name => F::Name,
        s::Field::NameNoStart => F::NameWithoutStartingPoint,
        s::Field::SizeBytes => F::DiskSizeBytes,
        s::Field::Sparseness => F::Sparseness,
        s::Field::Modify => F::Modify,
        s::Field::ModifyFmt(c) => F::ModifyFormatted(*c),
        s::Field::User => F::User,
        s::Field::UserId => F::UserId,
        s::Field::Type => F::Type,
        s::Field::TypeSymlink => F::TypeSymlink,
        s::Field::SecContext => F::SecurityContext,
        s::Field::FileId => F::FileId,
        s::Field::ProjectId => F::ProjectId,
        s::Field::MirrorCount => F::MirrorCount,
        s::Field::StripeCount => F::StripeCount,
        s::Field::StripeSize => F::StripeSize,
        s::Field::XAttr(n) => F::XAttr(n.clone()),
    }
}

pub fn fmt(f: &[r::FormatElement]) -> Vec<s::Fmt> {
    f.iter()
        .map(|e| match e {
            r::FormatElement::Literal(t) => s::Fmt::Lit(t.clone()),
            r::FormatElement::Field(x) => s::Fmt::Field(field(x)),
            r::FormatElement::Special(x) => s::Fmt::Special(special(x)),
        })
        .collect()
}

pub fn fmt_to_real(f: &[s::Fmt]) -> Vec<r::FormatElement> {
    f.iter()
        .map(|e| match e {
            s::Fmt::Lit(t) => r::FormatElement::Literal(t.clone()),
            s::Fmt::Field(x) => r::FormatElement::Field(field_to_real(x)),
            s::Fmt::Special(x) => r::FormatElement::Special(special_to_real(x)),
        })
        .collect()
}

pub fn test(t: &r::Test) -> s::Test {
    use r::Test as T;
    match t {
        T::AccessTime(c) => {
            let (k, n, u) = cmp_time(c);
            s::Test::ATime(k, n, u)
        }
        T::ChangeTime(c) => {
            let (k, n, u) = cmp_time(c);
            s::Test::CTime(k, n, u)
        }
        T::ModifyTime(c) => {
            let (k, n, u) = cmp_time(c);
            s::Test::MTime(k, n, u)
        }
        T::Empty => s::Test::Empty,
        T::Executable => s::Test::Executable,
        T::False => s::Test::False,
        T::GroupId(c) => {
            let (k, n) = cmp_num(c);
            s::Test::Gid(k, n)
        }
        T::InodeNumber(c) => {
            let (k, n) = cmp_num(c);
            s::Test::Inum(k, n)
        }
        T::InsensitiveName(x) => s::Test::IName(x.clone()),
        T::InsensitivePath(x) => s::Test::IPath(x.clone()),
        T::Links(c) => {
            let (k, n) = cmp_num(c);
            s::Test::Links(k, n)
        }
        T::MirrorCount(c) => {
            let (k, n) = cmp_num(c);
            s::Test::MirrorCount(k, n)
        }
        T::Name(x) => s::Test::Name(x.clone()),
        T::Path(x) => s::Test::Path(x.clone()),
        T::Perm(p) => {
            let (k, m) = match p {
                r::PermCheck::AtLeast(m) => (s::PermKind::AtLeast, m),
                r::PermCheck::Any(m) => (s::PermKind::Any, m),
                r::PermCheck::Equal(m) => (s::PermKind::Equal, m),
            };
            s::Test::Perm(k, m.0.bits())
        }
        T::Pool(x) => s::Test::Pool(x.clone()),
        T::Readable => s::Test::Readable,
        T::Size(c) => {
            let (k, z) = match c {
                r::Comparison::GreaterThan(z) => (s::Cmp::Gt, z),
                r::Comparison::LesserThan(z) => (s::Cmp::Lt, z),
                r::Comparison::Equal(z) => (s::Cmp::Eq, z),
            };
            let (n, u) = size_from_real(z);
            s::Test::Size(k, n, u)
        }
        T::StripeCount(c) => {
            let (k, n) = cmp_num(c);
            s::Test::StripeCount(k, n)
        }
        T::True => s::Test::True,
        T::Type(l) => s::Test::Type(l.iter().map(ftype).collect()),
        T::UserId(c) => {
            let (k, n) = cmp_num(c);
            s::Test::Uid(k, n)
        }
        T::Writable => s::Test::Writable,
        T::Xattr(x) => s::Test::Xattr(x.clone()),
        T::XattrMatch(a, b) => s::Test::XattrMatch(a.clone(), b.clone()),
        T::AccessNewer(x) => s::Test::ANewer(x.clone()),
        T::ChangeNewer(x) => s::Test::CNewer(x.clone()),
        T::FsType(x) => s::Test::FsType(x.clone()),
        T::Group(x) => s::Test::Group(x.clone()),
        T::InsensitiveLinkName(x) => s::Test::ILName(x.clone()),
        T::InsensitiveRegex(x) => s::Test::IRegex(x.clone()),
        T::LinkName(x) => s::Test::LName(x.clone()),
        T::ModifyNewer(x) => s::Test::MNewer(x.clone()),
        T::NoGroup => s::Test::NoGroup,
        T::NoUser => s::Test::NoUser,
        T::Regex(x) => s::Test::Regex(x.clone()),
        T::Samefile(x) => s::Test::Samefile(x.clone()),
        T::User(x) => s::Test::User(x.clone()),
    }
}

fn cmp_to_real<T>(k: s::Cmp, v: T) -> r::Comparison<T> {
    match k {
        s::Cmp::Gt => r::Comparison::GreaterThan(v),
        s::Cmp::Lt => r::Comparison::LesserThan(v),
        s::Cmp::Eq => r::Comparison::Equal(v),
    }
}

pub fn test_to_real(t: &s::Test) -> Option<r::Test> {
    use r::Test as T;
    let n32 = |n: &u64| u32::try_from(*n).ok();
    Some(match t {
        s::Test::ATime(k, n, u) => T::AccessTime(cmp_to_real(*k, time_to_real(*n, *u))),
        s::Test::CTime(k, n, u) => T::ChangeTime(cmp_to_real(*k, time_to_real(*n, *u))),
        s::Test::MTime(k, n, u) => T::ModifyTime(cmp_to_real(*k, time_to_real(*n, *u))),
        s::Test::Empty => T::Empty,
        s::Test::Executable => T::Executable,
        s::Test::False => T::False,
        s::Test::Gid(k, n) => T::GroupId(cmp_to_real(*k, n32(n)?)),
        s::Test::Inum(k, n) => T::InodeNumber(cmp_to_real(*k, n32(n)?)),
        s::Test::IName(x) => T::InsensitiveName(x.clone()),
        s::Test::IPath(x) => T::InsensitivePath(x.clone()),
        s::Test::Links(k, n) => T::Links(cmp_to_real(*k, *n)),
        s::Test::MirrorCount(k, n) => T::MirrorCount(cmp_to_real(*k, n32(n)?)),
        s::Test::Name(x) => T::Name(x.clone()),
        s::Test::Path(x) => T::Path(x.clone()),
        s::Test::Perm(k, b) => {
            let m = r::Permission(Mode::from_bits(*b)?);
            T::Perm(match k {
                s::PermKind::AtLeast => r::PermCheck::AtLeast(m),
                s::PermKind::Any => r::PermCheck::Any(m),
                s::PermKind::Equal => r::PermCheck::Equal(m),
            })
        }
        s::Test::Pool(x) => T::Pool(x.clone()),
        s::Test::Readable => T::Readable,
        s::Test::Size(k, n, u) => T::Size(cmp_to_real(*k, size_to_real(*n, *u))),
        s::Test::StripeCount(k, n) => T::StripeCount(cmp_to_real(*k, n32(n)?)),
        s::Test::True => T::True,
        s::Test::Type(l) => T::Type(l.iter().map(|t| ftype_to_real(*t)).collect()),
        s::Test::Uid(k, n) => T::UserId(cmp_to_real(*k, n32(n)?)),
        s::Test::Writable => T::Writable,
        s::Test::Xattr(x) => T::Xattr(x.clone()),
        s::Test::XattrMatch(a, b) => T::XattrMatch(a.clone(), b.clone()),
        s::Test::ANewer(x) => T::AccessNewer(x.clone()),
        s::Test::CNewer(x) => T::ChangeNewer(x.clone()),
        s::Test::FsType(x) => T::FsType(x.clone()),
        s::Test::Group(x) => T::Group(x.clone()),
        s::Test::ILName(x) => T::InsensitiveLinkName(x.clone()),
        s::Test::IRegex(x) => T::InsensitiveRegex(x.clone()),
        s::Test::LName(x) => T::LinkName(x.clone()),
        s::Test::MNewer(x) => T::ModifyNewer(x.clone()),
        s::Test::NoGroup => T::NoGroup,
        s::Test::NoUser => T::NoUser,
        s::Test::Regex(x) => T::Regex(x.clone()),
        s::Test::Samefile(x) => T::Samefile(x.clone()),
        s::Test::User(x) => T::User(x.clone()),
    })
}

#[allow(deprecated)]
pub fn action(a: &r::Action) -> s::Action {
    use r::Action as A;
    match a {
        A::FileList(f) => s::Action::Fls(f.clone()),
        A::FilePrint(f) => s::Action::FPrint(f.clone()),
        A::FilePrintNull(f) => s::Action::FPrint0(f.clone()),
        A::FilePrintFormatted(f, e) => s::Action::FPrintf(f.clone(), fmt(e)),
        A::List => s::Action::Ls,
        A::Print => s::Action::Print,
        A::PrintNull => s::Action::Print0,
        A::PrintFormatted(e) => s::Action::Printf(fmt(e)),
        A::PrintFid => s::Action::PrintFid,
        A::Prune => s::Action::Prune,
        A::Quit => s::Action::Quit,
        A::DefaultPrint => s::Action::DefaultPrint,
    }
}

#[allow(deprecated)]
pub fn action_to_real(a: &s::Action) -> r::Action {
    use r::Action as A;
    match a {
        s::Action::Fls(f) => A::FileList(f.clone()),
        s::Action::FPrint(f) => A::FilePrint(f.clone()),
        s::Action::FPrint0(f) => A::FilePrintNull(f.clone()),
        s::Action::FPrintf(f, e) => A::FilePrintFormatted(f.clone(), fmt_to_real(e)),
        s::Action::Ls => A::List,
        s::Action::Print => A::Print,
        s::Action::Print0 => A::PrintNull,
        s::Action::Printf(e) => A::PrintFormatted(fmt_to_real(e)),
        s::Action::PrintFid => A::PrintFid,
        s::Action::Prune => A::Prune,
        s::Action::Quit => A::Quit,
        s::Action::DefaultPrint => A::DefaultPrint,
    }
}

pub fn global(g: &r::GlobalOption) -> s::Global {
    match g {
        r::GlobalOption::Depth => s::Global::Depth,
        r::GlobalOption::MaxDepth(n) => s::Global::MaxDepth(*n as u64),
        r::GlobalOption::MinDepth(n) => s::Global::MinDepth(*n as u64),
        r::GlobalOption::Threads(n) => s::Global::Threads(*n as u64),
    }
}

pub fn global_to_real(g: &s::Global) -> Option<r::GlobalOption> {
    Some(match g {
        s::Global::Depth => r::GlobalOption::Depth,
        s::Global::MaxDepth(n) => r::GlobalOption::MaxDepth(u32::try_from(*n).ok()?),
        s::Global::MinDepth(n) => r::GlobalOption::MinDepth(u32::try_from(*n).ok()?),
        s::Global::Threads(n) => r::GlobalOption::Threads(u32::try_from(*n).ok()?),
    })
}

pub fn expr(e: &r::Expression) -> s::Expr {
    match e {
        r::Expression::Operator(o) => match o.as_ref() {
            r::Operator::Precedence(x) => s::Expr::prec(expr(x)),
            r::Operator::Not(x) => s::Expr::not(expr(x)),
            r::Operator::And(a, b) => s::Expr::and(expr(a), expr(b)),
            r::Operator::Or(a, b) => s::Expr::or(expr(a), expr(b)),
            r::Operator::List(a, b) => s::Expr::list(expr(a), expr(b)),
        },
        r::Expression::Test(t) => s::Expr::Test(test(t)),
        r::Expression::Action(a) => s::Expr::Action(action(a)),
        r::Expression::Global(g) => s::Expr::Global(global(g)),
        r::Expression::Positional(_) => s::Expr::Positional,
    }
}

pub fn expr_to_real(e: &s::Expr) -> Option<r::Expression> {
    let op = |o: r::Operator| r::Expression::Operator(Rc::new(o));
    Some(match e {
        s::Expr::Not(x) => op(r::Operator::Not(expr_to_real(x)?)),
        s::Expr::Prec(x) => op(r::Operator::Precedence(expr_to_real(x)?)),
        s::Expr::And(a, b) => op(r::Operator::And(expr_to_real(a)?, expr_to_real(b)?)),
        s::Expr::Or(a, b) => op(r::Operator::Or(expr_to_real(a)?, expr_to_real(b)?)),
        s::Expr::List(a, b) => op(r::Operator::List(expr_to_real(a)?, expr_to_real(b)?)),
        s::Expr::Test(t) => r::Expression::Test(test_to_real(t)?),
        s::Expr::Action(a) => r::Expression::Action(action_to_real(a)),
        s::Expr::Global(g) => r::Expression::Global(global_to_real(g)?),
        s::Expr::Positional => r::Expression::Positional(r::PositionalOption::XDev),
    })
}
