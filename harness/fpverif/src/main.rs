mod conv;
mod envprobe;
mod policy;
mod prog;
mod props;
mod scope;
mod subject;
mod textcmp;

use speclib::report::{install_panic_hook, Ctx, Tier};

fn usage() -> ! {
    eprintln!("usage: fpverif <C01..C20> --tier quick|thorough [--replay FILE]\n       fpverif child <mode> [args…]");
    std::process::exit(2)
}

/// A logger that discards everything: the subject logs through the `log` facade, and whether a
/// logger is listening (and at which level) is part of its environment.  Checks switch the level
/// with `log::set_max_level`; the default is Off, as in a process without any logger.
struct NullLogger;
impl log::Log for NullLogger {
    fn enabled(&self, _: &log::Metadata) -> bool {
        true
    }
    fn log(&self, r: &log::Record) {
        // format the arguments as a real logger would, then drop the text
        let _ = format!("{}", r.args());
    }
    fn flush(&self) {}
}
static LOGGER: NullLogger = NullLogger;

fn main() {
    let _ = log::set_logger(&LOGGER);
    log::set_max_level(match std::env::var("FPVERIF_LOG").as_deref() {
        Ok("trace") => log::LevelFilter::Trace,
        Ok("warn") => log::LevelFilter::Warn,
        _ => log::LevelFilter::Off,
    });
    let args: Vec<String> = std::env::args().skip(1).collect();
    if args.is_empty() {
        usage();
    }
    install_panic_hook();
    if args[0] == "child" {
        std::process::exit(props::child(&args[1..]));
    }
    let id = args[0].clone();
    let mut tier = match std::env::var("VERIF_TIER").as_deref() {
        Ok("thorough") => Tier::Thorough,
        _ => Tier::Quick,
    };
    let mut replay = None;
    let mut inner = false;
    let mut i = 1;
    while i < args.len() {
        match args[i].as_str() {
            "--tier" => {
                tier = match args.get(i + 1).map(|s| s.as_str()) {
                    Some("quick") => Tier::Quick,
                    Some("thorough") => Tier::Thorough,
                    _ => usage(),
                };
                i += 2;
            }
            "--inner" => {
                inner = true;
                i += 1;
            }
            "--replay" => {
                replay = args.get(i + 1).cloned();
                if replay.is_none() {
                    usage();
                }
                i += 2;
            }
            _ => usage(),
        }
    }
    // supervision: the exploration runs in a child of this process under a virtual-memory limit;
    // a change to the library that makes some emitted program (or the library itself) grow without
    // bound must end as a reported violation, not as a check killed by the kernel
    if !inner && replay.is_none() && std::env::var("FPVERIF_SUPERVISED").is_err() {
        let t0 = std::time::Instant::now();
        let exe = std::env::current_exe().unwrap_or_else(|_| "fpverif".into());
        let status = std::process::Command::new("sh")
            .arg("-c")
            .arg("ulimit -v 50331648 2>/dev/null; exec \"$0\" \"$@\"")
            .arg(&exe)
            .args(&args)
            .env("FPVERIF_SUPERVISED", "1")
            .status();
        let code = match status {
            Ok(s) => match s.code() {
                Some(c @ 0..=2) => c,
                other => speclib::report::emergency(
                    &id,
                    tier,
                    "check-process-died",
                    &format!("the process exploring this property died ({}): out of memory (limit 48 GiB), abort or stack exhaustion while the library or one of its emitted programs was being run", match other { Some(c) => format!("exit code {c}"), None => format!("{s}") }),
                    t0.elapsed().as_secs_f64(),
                ),
            },
            Err(e) => {
                println!("MACHINERY-ERROR cannot start the supervised child: {e}");
                2
            }
        };
        std::process::exit(code);
    }
    let ctx = Ctx::new(&id, tier);
    *speclib::report::BOUND_ADDENDUM.lock().unwrap() = props::bound_addendum(&id).to_string();
    if replay.is_none() {
        let budget = std::env::var("VERIF_BUDGET_S").ok().and_then(|s| s.parse().ok()).unwrap_or(match tier {
            Tier::Quick => 420,
            Tier::Thorough => 5400,
        });
        speclib::report::watchdog(id.clone(), tier, budget);
    }
    let code = match replay {
        Some(path) => props::replay(&ctx, &path),
        None => {
            if !inner {
                // what does the library ask its environment?  (violations found under a variation
                // are merged into this run's report)
                envprobe::run(&ctx);
            }
            // a panic of the harness itself is a machinery error, never a verdict
            match std::panic::catch_unwind(std::panic::AssertUnwindSafe(|| props::run(&ctx))) {
                Ok(c) => c,
                Err(p) => {
                    let msg = p.downcast_ref::<String>().cloned().or_else(|| p.downcast_ref::<&str>().map(|s| s.to_string())).unwrap_or_else(|| "panic".into());
                    println!("MACHINERY-ERROR {} harness panicked: {msg}", ctx.id);
                    2
                }
            }
        }
    };
    std::process::exit(code);
}
