mod conv;
mod policy;
mod prog;
mod props;
mod scope;
mod subject;
mod textcmp;

use speclib::report::{install_panic_hook, Ctx, Tier};

fn usage() -> ! {
    eprintln!("usage: fpverif <C01..C20> --tier quick|thorough [--replay FILE]\n       fpverif child <mode> [args…]");
    std::process::exit(2)
}

fn main() {
    let args: Vec<String> = std::env::args().skip(1).collect();
    if args.is_empty() {
        usage();
    }
    install_panic_hook();
    if args[0] == "child" {
        std::process::exit(props::child(&args[1..]));
    }
    let id = args[0].clone();
    let mut tier = match std::env::var("VERIF_TIER").as_deref() {
        Ok("thorough") => Tier::Thorough,
        _ => Tier::Quick,
    };
    let mut replay = None;
    let mut i = 1;
    while i < args.len() {
        match args[i].as_str() {
            "--tier" => {
                tier = match args.get(i + 1).map(|s| s.as_str()) {
                    Some("quick") => Tier::Quick,
                    Some("thorough") => Tier::Thorough,
                    _ => usage(),
                };
                i += 2;
            }
            "--replay" => {
                replay = args.get(i + 1).cloned();
                if replay.is_none() {
                    usage();
                }
                i += 2;
            }
            _ => usage(),
        }
    }
    let ctx = Ctx::new(&id, tier);
    let code = match replay {
        Some(path) => props::replay(&ctx, &path),
        None => props::run(&ctx),
    };
    std::process::exit(code);
}
