//! Ownership of the environment: parse/compile/render are supposed to be functions of their
//! arguments (plus one clock read per time test).  Before a check trusts that, it *discovers*
//! what the subject asks its environment while a probe corpus is processed — environment
//! variables (ltrace on libc's getenv), file-system and working-directory system calls (strace),
//! sensitivity to a listening logger — and for every dependency found it re-runs the property's
//! own check as a child process under that variation.  Nothing is judged by the discovery
//! itself: only violations reported by the re-run check count.
use crate::props::children::{canon, exe};
use crate::props::corpus::seeds;
use serde_json::json;
use speclib::report::{root, Ctx, Violation, EXTRA};
use std::collections::BTreeSet;
use std::process::Command;

pub fn probe_inputs() -> Vec<String> {
    let mut v = seeds();
    for s in [
        "-size 20 -size +3b -size -7k",
        "-mmin -5 -atime +1 -printf '%AY %Tk %C@ %p\\n'",
        "-name x -threads 8",
        "-threads 2 -name x -depth",
        "-name core -print -quit",
        "-name a -print0 -o -name b -printf '%p'",
        "-fprint out.lst -fprint0 ./out.lst -fprintf ../x '%p\\n'",
        "-fprint /dev/stdout -o -print",
        "-fprint /dev/null",
        "-type f -perm -600 -perm /022",
        "-depth -name .snapshot -prune -o -print",
        "-name 'a b' -iname \"Q\" -path './x'",
        "( -name a -o ! -name b ) , -uid +0",
    ] {
        v.push(s.to_string());
    }
    v
}

const ALLOW_PREFIX: [&str; 6] = ["RUST_", "RAYON_", "VERIF_", "FPVERIF_", "CARGO_", "LD_"];
const VALUES: [&str; 9] = ["1", "0", "", "1K", "1024", "315532800", "true", "x\" (system \"id\") \"", "/nonexistent"];

fn tool(name: &str) -> bool {
    Command::new(name).arg("-V").output().map(|o| o.status.success() || !o.stdout.is_empty() || !o.stderr.is_empty()).unwrap_or(false)
}

fn scratch() -> std::path::PathBuf {
    let d = root().join("target").join("envprobe").join(format!("{}", std::process::id()));
    let _ = std::fs::create_dir_all(&d);
    d
}

/// Names the subject passes to getenv while the probe corpus is processed.
fn discover_env(file: &std::path::Path, log: &str, profile: &str) -> Option<BTreeSet<String>> {
    let out = scratch().join(format!("ltrace-{profile}-{log}.txt"));
    let st = Command::new("ltrace")
        .args(["-f", "-L", "-x", "getenv", "-o"])
        .arg(&out)
        .arg(exe(profile))
        .args(["child", "records", file.to_str()?, "0", "1", "0"])
        .env("FPVERIF_LOG", log)
        .stdout(std::process::Stdio::null())
        .stderr(std::process::Stdio::null())
        .status()
        .ok()?;
    if !st.success() {
        return None;
    }
    let text = std::fs::read_to_string(&out).ok()?;
    let mut names = BTreeSet::new();
    for l in text.lines() {
        if let Some(i) = l.find("getenv") {
            if let Some(a) = l[i..].find("(\"") {
                let rest = &l[i + a + 2..];
                if let Some(e) = rest.find('"') {
                    names.insert(rest[..e].to_string());
                }
            }
        }
    }
    Some(names)
}

/// File-system related system calls made after the probe corpus has been read.
fn discover_fs(file: &std::path::Path, log: &str) -> Option<Vec<String>> {
    let out = scratch().join(format!("strace-{log}.txt"));
    let st = Command::new("strace")
        .args(["-f", "-e", "trace=%file,getcwd,chdir", "-o"])
        .arg(&out)
        .arg(exe("release"))
        .args(["child", "records", file.to_str()?, "0", "1", "0"])
        .env("FPVERIF_LOG", log)
        .stdout(std::process::Stdio::null())
        .stderr(std::process::Stdio::null())
        .status()
        .ok()?;
    if !st.success() {
        return None;
    }
    let text = std::fs::read_to_string(&out).ok()?;
    let marker = "/FPVERIF-PROBE-START".to_string();
    let mut seen_marker = false;
    let mut calls = vec![];
    for l in text.lines() {
        if !seen_marker {
            if l.contains(&marker) {
                seen_marker = true;
            }
            continue;
        }
        if l.contains("+++ exited") || l.contains("--- SIG") {
            continue;
        }
        // "pid syscall(args) = ret": keep the syscall and its first argument
        let body = l.split_once(' ').map(|x| x.1).unwrap_or(l);
        calls.push(body.chars().take(120).collect());
    }
    Some(calls)
}

fn programs_under(file: &std::path::Path, name: &str, value: &str) -> Option<Vec<Option<String>>> {
    let o = Command::new(exe("release")).args(["child", "programs", file.to_str()?]).env(name, value).stderr(std::process::Stdio::null()).output().ok()?;
    if !o.status.success() {
        return None;
    }
    Some(String::from_utf8_lossy(&o.stdout).lines().map(|l| serde_json::from_str::<Option<String>>(l).ok().flatten()).collect())
}

fn value_is_data(file: &std::path::Path, inputs: &[String], name: &str) -> Vec<Violation> {
    const BENIGN: &str = "qzq/Qzq";
    let mut out = vec![];
    let Some(base) = programs_under(file, name, BENIGN) else { return out };
    for hostile in ["x\" (system \"id\") \"", "a\\", "q\nq)(", "é~a;#|"] {
        let Some(got) = programs_under(file, name, hostile) else { continue };
        for (k, (b, g)) in base.iter().zip(got.iter()).enumerate() {
            let problem = match (b, g) {
                (Some(b), Some(g)) => match (crate::prog::Prog::read(b), crate::prog::Prog::read(g)) {
                    (Ok(pb), Ok(pg)) => {
                        let skel = |p: &crate::prog::Prog| p.forms.iter().map(|f| f.skeleton()).collect::<Vec<_>>();
                        let strs = |p: &crate::prog::Prog| {
                            let mut v = vec![];
                            for f in &p.forms {
                                let mut ns = vec![];
                                f.strings(&mut ns);
                                v.extend(ns.into_iter().map(|n| n.as_str().unwrap_or("").to_string()));
                            }
                            v
                        };
                        if skel(&pb) != skel(&pg) {
                            Some(format!("the program's structure differs from the one emitted with {name}={BENIGN:?}"))
                        } else if strs(&pb).iter().zip(strs(&pg).iter()).any(|(x, y)| x != y && x.replace(BENIGN, hostile) != *y) {
                            Some("a string literal changed other than by carrying the value".to_string())
                        } else {
                            None
                        }
                    }
                    (Ok(_), Err(e)) => Some(format!("the emitted text does not read as Scheme: {e}")),
                    _ => None,
                },
                (Some(_), None) | (None, Some(_)) => None, // acceptance depending on the environment is C15's subject
                (None, None) => None,
            };
            if let Some(p) = problem {
                out.push(Violation::new(
                    format!("C04:environment-value-reaches-the-program-as-code:{name}"),
                    format!("input {:?} compiled with the environment variable {name}={hostile:?} (which the library reads): {p}", inputs.get(k).map(|s| s.as_str()).unwrap_or("?")),
                    json!({"kind": "environment-value", "variable": name, "value": hostile, "input": inputs.get(k)}),
                ));
                break;
            }
        }
    }
    out
}

/// Re-run this property's own check as a child under a variation; returns (signature, text).
fn rerun_inner(ctx: &Ctx, setting: &str, envs: &[(&str, &str)], cwd: Option<&std::path::Path>) -> Vec<(String, String)> {
    let sroot = scratch().join(format!("root-{}", setting.chars().filter(|c| c.is_ascii_alphanumeric()).take(24).collect::<String>()));
    let _ = std::fs::create_dir_all(&sroot);
    let _ = std::fs::copy(root().join("known_findings.json"), sroot.join("known_findings.json"));
    #[cfg(unix)]
    let _ = std::os::unix::fs::symlink(root().join("target"), sroot.join("target"));
    let mut c = Command::new(exe("release"));
    // the date dimension multiplies the quick bound (seven full thorough runs would not fit the budget)
    let tier = if setting.starts_with("clock-") { "quick" } else { ctx.tier.name() };
    c.args([&ctx.id, "--tier", tier, "--inner"]).env("VERIF_ROOT", &sroot);
    for (k, v) in envs {
        c.env(k, v);
    }
    if let Some(d) = cwd {
        c.current_dir(d);
    }
    let out = match c.output() {
        Ok(o) => String::from_utf8_lossy(&o.stdout).to_string(),
        Err(_) => return vec![],
    };
    let mut res = vec![];
    let lines: Vec<&str> = out.lines().collect();
    for (i, l) in lines.iter().enumerate() {
        if l.starts_with("VIOLATION property=") {
            if let Some(next) = lines.get(i + 1) {
                if let Some(rest) = next.trim().strip_prefix("signature=") {
                    let sig = rest.split(' ').next().unwrap_or("").to_string();
                    res.push((sig, rest.chars().take(400).collect()));
                }
            }
        }
    }
    res
}

pub fn run(ctx: &Ctx) {
    let inputs = probe_inputs();
    let dir = scratch();
    let file = dir.join("probe-inputs.json");
    if std::fs::write(&file, serde_json::to_string(&inputs).unwrap()).is_err() {
        return;
    }
    let mut info: Vec<(String, serde_json::Value)> = vec![];
    let mut found: Vec<Violation> = vec![];
    let mut reruns = 0u64;
    // 1. environment variables
    let mut names = BTreeSet::new();
    let have_ltrace = tool("ltrace");
    if have_ltrace {
        // the checks that run the debug build as well discover on both binaries
        let profiles: &[&str] = if matches!(ctx.id.as_str(), "C03" | "C17") && exe("debug").exists() { &["release", "debug"] } else { &["release"] };
        for profile in profiles {
            for log in ["off", "trace"] {
                if let Some(n) = discover_env(&file, log, profile) {
                    names.extend(n);
                }
            }
        }
    }
    let names: Vec<String> = names.into_iter().filter(|n| !ALLOW_PREFIX.iter().any(|p| n.starts_with(p))).collect();
    for n in &names {
        for v in VALUES {
            reruns += 1;
            for (sig, text) in rerun_inner(ctx, &format!("{n}-{v}"), &[(n.as_str(), v)], None) {
                found.push(Violation::new(
                    format!("{sig}:under-environment:{n}"),
                    format!("with the environment variable {n}={v:?} (which the library reads): {text}"),
                    json!({"kind": "environment", "variable": n, "value": v}),
                ));
            }
        }
    }
    // 1b. (C04) the *value* of a variable the library reads is data: a value full of Scheme
    // syntax must give the program that a harmless value of the same kind gives, string literals
    // aside, and the only string literals that change are the ones carrying the value
    if ctx.id == "C04" {
        for n in &names {
            reruns += 2;
            found.extend(value_is_data(&file, &inputs, n));
        }
    }
    // 2. file system / working directory
    let have_strace = tool("strace");
    let mut fs_calls: Vec<String> = vec![];
    if have_strace {
        for log in ["off", "trace"] {
            if let Some(c) = discover_fs(&file, log) {
                fs_calls.extend(c);
            }
        }
    }
    fs_calls.sort();
    fs_calls.dedup();
    if !fs_calls.is_empty() {
        // (a) a working directory that no longer exists, with a logger listening
        let gone = dir.join("gone");
        let _ = std::fs::create_dir_all(&gone);
        let gone_c = gone.clone();
        reruns += 2;
        // the child changes into the directory, which is then removed under it
        let run_in_gone = |log: &str| -> Vec<(String, String)> {
            let _ = std::fs::create_dir_all(&gone_c);
            let mut r = vec![];
            let sroot = scratch().join("root-gone");
            let _ = std::fs::create_dir_all(&sroot);
            let _ = std::fs::copy(root().join("known_findings.json"), sroot.join("known_findings.json"));
            #[cfg(unix)]
            let _ = std::os::unix::fs::symlink(root().join("target"), sroot.join("target"));
            let sh = format!(
                "cd {} && rmdir {} && VERIF_ROOT={} FPVERIF_LOG={log} {} {} --tier {} --inner",
                gone_c.display(),
                gone_c.display(),
                sroot.display(),
                exe("release").display(),
                ctx.id,
                ctx.tier.name()
            );
            if let Ok(o) = Command::new("sh").arg("-c").arg(&sh).output() {
                let out = String::from_utf8_lossy(&o.stdout).to_string();
                let lines: Vec<&str> = out.lines().collect();
                for (i, l) in lines.iter().enumerate() {
                    if l.starts_with("VIOLATION property=") {
                        if let Some(rest) = lines.get(i + 1).and_then(|n| n.trim().strip_prefix("signature=")) {
                            r.push((rest.split(' ').next().unwrap_or("").to_string(), rest.chars().take(400).collect()));
                        }
                    }
                }
            }
            r
        };
        for log in ["off", "trace"] {
            for (sig, text) in run_in_gone(log) {
                found.push(Violation::new(
                    format!("{sig}:under-environment:removed-working-directory"),
                    format!("run from a working directory that has been removed (logger level {log}); the library makes file-system calls {:?}: {text}", fs_calls.iter().take(3).collect::<Vec<_>>()),
                    json!({"kind": "environment", "cwd": "removed", "log": log}),
                ));
            }
        }
        // (b) a working directory in which the relative names used by the checks exist
        let full = dir.join("full");
        let _ = std::fs::create_dir_all(full.join("sub"));
        for f in ["f", "g", "out", "out.lst", "a", "b", "x", "big", "exe", "root", "f0", "f1"] {
            let _ = std::fs::write(full.join(f), b"x");
        }
        reruns += 1;
        for (sig, text) in rerun_inner(ctx, "cwd-full", &[], Some(&full)) {
            found.push(Violation::new(
                format!("{sig}:under-environment:existing-files-in-working-directory"),
                format!("run from a working directory in which files named f, g, out, … exist: {text}"),
                json!({"kind": "environment", "cwd": "files-exist"}),
            ));
        }
    }
    // 3. a listening logger
    log::set_max_level(log::LevelFilter::Off);
    let quiet: Vec<String> = inputs.iter().map(|i| canon(i).1).collect();
    log::set_max_level(log::LevelFilter::Trace);
    let loud: Vec<String> = inputs.iter().map(|i| canon(i).1).collect();
    log::set_max_level(log::LevelFilter::Off);
    let log_sensitive = quiet.iter().zip(loud.iter()).position(|(a, b)| a != b);
    if let Some(k) = log_sensitive {
        reruns += 1;
        let got = rerun_inner(ctx, "log-trace", &[("FPVERIF_LOG", "trace")], None);
        if got.is_empty() {
            found.push(Violation::new(
                format!("{}:result-depends-on-log-level", ctx.id),
                format!("the result for {:?} differs when a logger listens at Trace level", inputs[k]),
                json!({"kind": "environment", "log": "trace", "input": inputs[k]}),
            ));
        }
        for (sig, text) in got {
            found.push(Violation::new(
                format!("{sig}:under-environment:logger-at-trace-level"),
                format!("with a logger listening at Trace level: {text}"),
                json!({"kind": "environment", "log": "trace"}),
            ));
        }
    }
    // 4. the date: the time-related checks are run again "at" other dates through the clock seam
    // (target/clockshim.so shifts CLOCK_REALTIME for the library and the harness alike)
    let mut clock_note = "not applicable to this property".to_string();
    if matches!(ctx.id.as_str(), "C02" | "C03" | "C07" | "C12" | "C15" | "C17" | "C20") {
        let shim = root().join("target").join("clockshim.so");
        let real_now = std::time::SystemTime::now().duration_since(std::time::UNIX_EPOCH).map(|d| d.as_secs()).unwrap_or(0) as i64;
        let shifted = |off: i64| -> Option<i64> {
            let o = Command::new(exe("release")).args(["child", "now"]).env("LD_PRELOAD", &shim).env("FPVERIF_CLOCK_OFFSET", off.to_string()).output().ok()?;
            String::from_utf8_lossy(&o.stdout).trim().parse().ok()
        };
        if !shim.exists() {
            clock_note = "clock seam not built (no C compiler): not run".into();
        } else if shifted(1_000_000).map_or(true, |t| (t - real_now - 1_000_000).abs() > 5) {
            clock_note = "clock seam has no effect on this binary: not run".into();
        } else {
            let day = 86_400i64;
            let mut targets: Vec<(&str, i64)> = vec![
                ("2038-01-19 (2^31 s)", (1i64 << 31) + 5),
                ("2106-02-07 (2^32 s)", (1i64 << 32) + 7),
                ("two seconds before midnight UTC", (real_now / day + 1) * day - 2),
            ];
            if ctx.tier == speclib::report::Tier::Thorough {
                targets.push(("2001-09-09 (10^9 s)", 1_000_000_000));
                targets.push(("2028-02-29 12:00", 1_835_438_400));
                targets.push(("year 2262 (2^63 ns)", 9_223_372_037 + 3));
                targets.push(("year 5138 (10^11 s)", 100_000_000_000));
            }
            let mut labels = vec![];
            for (label, t) in targets {
                reruns += 1;
                labels.push(label);
                let off = (t - real_now).to_string();
                for (sig, text) in rerun_inner(ctx, &format!("clock-{}", t), &[("LD_PRELOAD", shim.to_str().unwrap_or("")), ("FPVERIF_CLOCK_OFFSET", off.as_str())], None) {
                    found.push(Violation::new(
                        format!("{sig}:under-environment:date"),
                        format!("with the wall clock at {label} (clock seam, offset {off} s): {text}"),
                        json!({"kind": "environment", "clock_offset": off, "date": label}),
                    ));
                }
            }
            clock_note = format!("check (quick bound) re-run with the wall clock at: {}", labels.join("; "));
        }
    }
    let _ = std::fs::remove_dir_all(&dir);
    info.push((
        "environment_probe".into(),
        json!({
            "probe_inputs": inputs.len(),
            "getenv_discovery": if have_ltrace { "ltrace -x getenv" } else { "unavailable" },
            "environment_variables_read_by_the_library": names,
            "syscall_discovery": if have_strace { "strace -e trace=%file,getcwd,chdir" } else { "unavailable" },
            "file_system_calls_made_by_the_library": fs_calls,
            "log_level_sensitive": log_sensitive.is_some(),
            "clock_seam": clock_note,
            "checks_rerun_under_a_variation": reruns,
        }),
    ));
    let mut e = EXTRA.lock().unwrap();
    e.0.extend(found);
    e.1.extend(info);
}
