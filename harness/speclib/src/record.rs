//! File records (what a scanner thread knows about one file) and the string matchers shared by
//! the reference evaluator and the runtime model.
use serde::{Deserialize, Serialize};

#[derive(Clone, Debug, PartialEq, Eq, Serialize, Deserialize)]
pub struct Record {
    pub uid: u64,
    pub gid: u64,
    pub ino: u64,
    pub nlink: u64,
    pub size: u64,
    pub blocks: u64,
    /// st_mode: type bits and the twelve permission bits
    pub mode: u32,
    pub atime: u64,
    pub ctime: u64,
    pub mtime: u64,
    pub projid: u64,
    pub name: String,
    pub rel_path: String,
    pub abs_path: String,
    pub mount: String,
    pub user: String,
    pub group: String,
    pub fid: String,
    pub stripe_count: u64,
    pub stripe_size: u64,
    pub mirror_count: u64,
    pub pools: Vec<String>,
    pub xattrs: Vec<(String, String)>,
    pub empty: bool,
    pub executable: bool,
    pub readable: bool,
    pub writable: bool,
}

impl Record {
    /// A record in which every attribute has a different, recognisable value, so that a swapped
    /// field shows up in any comparison or printed output.
    pub fn distinct(now: u64) -> Record {
        Record {
            uid: 1001,
            gid: 2002,
            ino: 3003,
            nlink: 4,
            size: 5555,
            blocks: 16,
            mode: 0o100644,
            atime: now - 100_000,
            ctime: now - 200_000,
            mtime: now - 300_000,
            projid: 77,
            name: "file.txt".into(),
            rel_path: "dir/sub/file.txt".into(),
            abs_path: "/mnt/lustre/dir/sub/file.txt".into(),
            mount: "/mnt/lustre".into(),
            user: "alice".into(),
            group: "staff".into(),
            fid: "[0x200000401:0x1:0x0]".into(),
            stripe_count: 3,
            stripe_size: 1048576,
            mirror_count: 2,
            pools: vec!["flash".into()],
            xattrs: vec![("user.tag".into(), "blue".into()), ("tag".into(), "green".into())],
            empty: false,
            executable: false,
            readable: true,
            writable: true,
        }
    }

    pub fn zero() -> Record {
        Record {
            uid: 0,
            gid: 0,
            ino: 0,
            nlink: 0,
            size: 0,
            blocks: 0,
            mode: 0o100000,
            atime: 0,
            ctime: 0,
            mtime: 0,
            projid: 0,
            name: "z".into(),
            rel_path: "z".into(),
            abs_path: "/m/z".into(),
            mount: "/m".into(),
            user: "root".into(),
            group: "root".into(),
            fid: "[0x0:0x0:0x0]".into(),
            stripe_count: 0,
            stripe_size: 0,
            mirror_count: 0,
            pools: vec![],
            xattrs: vec![],
            empty: true,
            executable: true,
            readable: false,
            writable: false,
        }
    }

    pub fn type_char(&self) -> char {
        match self.mode & 0o170000 {
            0o140000 => 's',
            0o120000 => 'l',
            0o100000 => 'f',
            0o060000 => 'b',
            0o040000 => 'd',
            0o020000 => 'c',
            0o010000 => 'p',
            _ => 'U',
        }
    }

    pub fn xattr(&self, name: &str) -> Option<&str> {
        self.xattrs.iter().find(|(n, _)| n == name).map(|(_, v)| v.as_str())
    }
}

/// dirname(3) on a path string.
pub fn dirname(p: &str) -> String {
    let t = p.trim_end_matches('/');
    if t.is_empty() {
        return if p.starts_with('/') { "/".into() } else { ".".into() };
    }
    match t.rfind('/') {
        None => ".".into(),
        Some(0) => "/".into(),
        Some(i) => t[..i].trim_end_matches('/').to_string(),
    }
}

/// fnmatch(3) without flags (optionally case-folding), over chars: `*`, `?`, `[...]` with
/// ranges and `!`/`^` negation, backslash quoting.
pub fn fnmatch(pat: &str, s: &str, casefold: bool) -> bool {
    let p: Vec<char> = if casefold { pat.to_lowercase().chars().collect() } else { pat.chars().collect() };
    let t: Vec<char> = if casefold { s.to_lowercase().chars().collect() } else { s.chars().collect() };
    fm(&p, &t)
}

fn fm(p: &[char], t: &[char]) -> bool {
    if p.is_empty() {
        return t.is_empty();
    }
    match p[0] {
        '*' => (0..=t.len()).any(|k| fm(&p[1..], &t[k..])),
        '?' => !t.is_empty() && fm(&p[1..], &t[1..]),
        '[' => {
            if t.is_empty() {
                return false;
            }
            match bracket(&p[1..], t[0]) {
                Some((m, used)) => m && fm(&p[1 + used..], &t[1..]),
                None => t[0] == '[' && fm(&p[1..], &t[1..]),
            }
        }
        '\\' if p.len() > 1 => !t.is_empty() && t[0] == p[1] && fm(&p[2..], &t[1..]),
        c => !t.is_empty() && t[0] == c && fm(&p[1..], &t[1..]),
    }
}

/// Parse a bracket expression after `[`; returns (matches c, chars consumed incl. the `]`).
fn bracket(p: &[char], c: char) -> Option<(bool, usize)> {
    let mut i = 0;
    let neg = matches!(p.first(), Some('!') | Some('^'));
    if neg {
        i += 1;
    }
    let mut matched = false;
    let mut first = true;
    loop {
        let ch = *p.get(i)?;
        if ch == ']' && !first {
            return Some((matched != neg, i + 1));
        }
        first = false;
        if p.get(i + 1) == Some(&'-') && p.get(i + 2).map_or(false, |e| *e != ']') {
            let hi = p[i + 2];
            if ch <= c && c <= hi {
                matched = true;
            }
            i += 3;
        } else {
            if ch == c {
                matched = true;
            }
            i += 1;
        }
    }
}

pub fn streq(a: &str, b: &str, casefold: bool) -> bool {
    if casefold {
        a.to_lowercase() == b.to_lowercase()
    } else {
        a == b
    }
}

pub fn has_glob(s: &str) -> bool {
    s.contains(|c| c == '*' || c == '?' || c == '[')
}

#[cfg(test)]
mod tests {
    use super::*;
    #[test]
    fn globs() {
        assert!(fnmatch("a*", "abc", false));
        assert!(!fnmatch("a*", "Abc", false));
        assert!(fnmatch("a*", "Abc", true));
        assert!(fnmatch("[a-c]?", "bz", false));
        assert!(!fnmatch("[!a-c]?", "bz", false));
        assert!(fnmatch("a", "a", false));
        assert!(!fnmatch("a", "ab", false));
        assert_eq!(dirname("dir/sub/file.txt"), "dir/sub");
        assert_eq!(dirname("z"), ".");
        assert_eq!(dirname("/z"), "/");
    }
}
