//! Accumulation of exploration results, known-finding matching, evidence files, exit codes.
use rayon::prelude::*;
use serde_json::{json, Map, Value};
use std::collections::{BTreeMap, HashSet};
use std::hash::{Hash, Hasher};
use std::path::PathBuf;
use std::time::Instant;

#[derive(Clone, Copy, PartialEq, Eq, Debug)]
pub enum Tier {
    Quick,
    Thorough,
}

impl Tier {
    pub fn name(self) -> &'static str {
        match self {
            Tier::Quick => "quick",
            Tier::Thorough => "thorough",
        }
    }
    pub fn pick<T>(self, quick: T, thorough: T) -> T {
        match self {
            Tier::Quick => quick,
            Tier::Thorough => thorough,
        }
    }
}

pub fn root() -> PathBuf {
    PathBuf::from(std::env::var("VERIF_ROOT").unwrap_or_else(|_| "/verif".into()))
}

#[derive(Clone, Debug)]
pub struct Violation {
    /// short stable class name: what failed and where, never an index or a count
    pub sig: String,
    /// one-line human description of this instance
    pub what: String,
    /// enough to replay: `{ "kind": ..., ... }`
    pub witness: Value,
}

impl Violation {
    pub fn new(sig: impl Into<String>, what: impl Into<String>, witness: Value) -> Violation {
        Violation { sig: sig.into(), what: what.into(), witness }
    }
    fn weight(&self) -> (usize, String) {
        let s = self.witness.to_string();
        (s.len(), s)
    }
}

#[derive(Default)]
pub struct Acc {
    pub states: u64,
    pub transitions: u64,
    pub validated: u64,
    pub counters: BTreeMap<String, u64>,
    pub distinct: HashSet<u64>,
    pub violations: BTreeMap<String, (Violation, u64)>,
    pub samples: Vec<Value>,
    pub skipped: BTreeMap<String, u64>,
}

pub fn hash_of<T: Hash + ?Sized>(t: &T) -> u64 {
    let mut h = std::collections::hash_map::DefaultHasher::new();
    t.hash(&mut h);
    h.finish()
}

impl Acc {
    pub fn new() -> Acc {
        Acc::default()
    }
    pub fn count(&mut self, key: &str, n: u64) {
        if let Some(v) = self.counters.get_mut(key) {
            *v += n;
        } else {
            self.counters.insert(key.to_string(), n);
        }
    }
    pub fn skip(&mut self, reason: &str) {
        *self.skipped.entry(reason.to_string()).or_insert(0) += 1;
    }
    pub fn outcome<T: Hash + ?Sized>(&mut self, t: &T) {
        // the set only documents non-vacuity: stop growing it at 2 M entries per worker
        if self.distinct.len() < 2_000_000 {
            self.distinct.insert(hash_of(t));
        }
    }
    pub fn sample(&mut self, v: Value) {
        if self.samples.len() < 6 {
            self.samples.push(v);
        }
    }
    pub fn violate(&mut self, v: Violation) {
        match self.violations.get_mut(&v.sig) {
            Some((old, n)) => {
                *n += 1;
                if v.weight() < old.weight() {
                    *old = v;
                }
            }
            None => {
                self.violations.insert(v.sig.clone(), (v, 1));
            }
        }
    }
    pub fn merge(mut self, o: Acc) -> Acc {
        self.states += o.states;
        self.transitions += o.transitions;
        self.validated += o.validated;
        for (k, v) in o.counters {
            *self.counters.entry(k).or_insert(0) += v;
        }
        for (k, v) in o.skipped {
            *self.skipped.entry(k).or_insert(0) += v;
        }
        if self.distinct.len() < o.distinct.len() {
            let mut d = o.distinct;
            if d.len() < 4_000_000 {
                d.extend(self.distinct.drain());
            }
            self.distinct = d;
        } else if self.distinct.len() < 4_000_000 {
            self.distinct.extend(o.distinct);
        }
        for (k, (v, n)) in o.violations {
            match self.violations.get_mut(&k) {
                Some((old, m)) => {
                    *m += n;
                    if v.weight() < old.weight() {
                        *old = v;
                    }
                }
                None => {
                    self.violations.insert(k, (v, n));
                }
            }
        }
        for s in o.samples {
            if self.samples.len() < 6 {
                self.samples.push(s);
            }
        }
        self
    }
}

/// Run `f(i, acc)` for every i in 0..n on all cores; deterministic result (the merge keeps the
/// smallest witness per signature and sums counters).
pub fn par_cases<F>(n: u64, f: F) -> Acc
where
    F: Fn(u64, &mut Acc) + Sync,
{
    if n == 0 {
        return Acc::new();
    }
    let chunks = (rayon::current_num_threads() as u64 * 64).min(n).max(1);
    let per = (n + chunks - 1) / chunks;
    (0..chunks)
        .into_par_iter()
        .map(|c| {
            let mut acc = Acc::new();
            let lo = c * per;
            let hi = ((c + 1) * per).min(n);
            for i in lo..hi {
                f(i, &mut acc);
            }
            acc
        })
        .reduce(Acc::new, Acc::merge)
}

/// Same over a slice of prepared cases.
pub fn par_items<T: Sync, F>(items: &[T], f: F) -> Acc
where
    F: Fn(&T, &mut Acc) + Sync,
{
    par_cases(items.len() as u64, |i, acc| f(&items[i as usize], acc))
}

pub struct Ctx {
    pub id: String,
    pub tier: Tier,
    pub seed: u64,
    pub start: Instant,
}

impl Ctx {
    pub fn new(id: &str, tier: Tier) -> Ctx {
        let seed = std::env::var("VERIF_SEED").ok().and_then(|s| s.parse().ok()).unwrap_or(0);
        Ctx { id: id.to_string(), tier, seed, start: Instant::now() }
    }
}

pub struct Finish {
    pub level: &'static str,
    pub exhaustive: bool,
    pub rule: String,
    pub bound: String,
    pub assumptions: Vec<String>,
    pub extra: Map<String, Value>,
}

#[derive(Clone, Debug)]
pub struct Known {
    pub property: String,
    pub signature: String,
    pub what: String,
}

pub fn load_known() -> Result<Vec<Known>, String> {
    let p = root().join("known_findings.json");
    let text = match std::fs::read_to_string(&p) {
        Ok(t) => t,
        Err(_) => return Ok(vec![]),
    };
    let v: Value = serde_json::from_str(&text).map_err(|e| format!("known_findings.json: {e}"))?;
    let mut out = vec![];
    for f in v.get("findings").and_then(|f| f.as_array()).cloned().unwrap_or_default() {
        out.push(Known {
            property: f["property"].as_str().unwrap_or("").to_string(),
            signature: f["signature"].as_str().unwrap_or("").to_string(),
            what: f["what"].as_str().unwrap_or("").to_string(),
        });
    }
    Ok(out)
}

fn sanitize(s: &str) -> String {
    s.chars().map(|c| if c.is_ascii_alphanumeric() || c == '-' || c == '_' { c } else { '_' }).collect()
}

/// What each worker thread is working on right now (set by the families whose cases can make
/// the subject loop or blow up); shown by the watchdog when the budget runs out.
pub static CURRENT: std::sync::Mutex<BTreeMap<String, (String, Instant)>> = std::sync::Mutex::new(BTreeMap::new());

pub fn enter_case(desc: impl FnOnce() -> String) {
    let id = format!("{:?}", std::thread::current().id());
    if let Ok(mut c) = CURRENT.lock() {
        c.insert(id, (desc(), Instant::now()));
    }
}

pub fn leave_case() {
    let id = format!("{:?}", std::thread::current().id());
    if let Ok(mut c) = CURRENT.lock() {
        c.remove(&id);
    }
}

/// Start a watchdog: if the check has not finished after `budget_s` seconds it is reported as a
/// violation (with the cases being worked on), the evidence file is written and the process
/// exits 1 — a subject that loops must not turn into a check that never answers.
/// Report a violation from outside the normal flow (the check process died): replay file,
/// VIOLATION line, minimal evidence file.  Returns the exit code 1.
pub fn emergency(id: &str, tier: Tier, sig_tail: &str, what: &str, wall_s: f64) -> i32 {
    let _ = std::fs::create_dir_all(root().join("replays"));
    let sig = format!("{id}:{sig_tail}");
    let path = root().join("replays").join(format!("{id}-{}.json", sig.replace(|c: char| !c.is_ascii_alphanumeric() && c != '-', "_")));
    let body = json!({"property": id, "signature": sig, "what": what, "witness": {"kind": "process", "tier": tier.name()}});
    let _ = std::fs::write(&path, serde_json::to_string_pretty(&body).unwrap());
    println!("VIOLATION property={id} replay={}", path.display());
    println!("  signature={sig} instances=1: {what}");
    let ev = json!({
        "property_id": id, "tier": tier.name(), "seed": 0, "level": "model_checking",
        "coverage": {"states": 1, "transitions": 1, "traces_validated_against_impl": 0, "samples": [what], "evaluations": 1, "distinct_nontrivial": 2, "exhaustive": false, "explanation": "the check process did not survive the exploration"},
        "wall_s": wall_s, "violations": 1,
    });
    let _ = std::fs::create_dir_all(root().join("evidence"));
    let _ = std::fs::write(root().join("evidence").join(format!("{id}.json")), serde_json::to_string_pretty(&ev).unwrap());
    1
}

pub fn watchdog(id: String, tier: Tier, budget_s: u64) {
    std::thread::spawn(move || {
        std::thread::sleep(std::time::Duration::from_secs(budget_s));
        let cur: Vec<String> = CURRENT
            .lock()
            .map(|c| {
                let mut v: Vec<(&String, &(String, Instant))> = c.iter().collect();
                v.sort_by_key(|x| x.1 .1);
                v.iter().take(4).map(|x| format!("{} (for {:.0} s)", x.1 .0, x.1 .1.elapsed().as_secs_f64())).collect()
            })
            .unwrap_or_default();
        let _ = std::fs::create_dir_all(root().join("replays"));
        let path = root().join("replays").join(format!("{id}-{id}_does-not-finish.json"));
        let body = json!({"property": id, "signature": format!("{id}:check-did-not-finish-within-{budget_s}s"), "what": "the exploration did not finish within its time budget: the subject loops or has become drastically slower on some case", "witness": {"kind": "budget", "working_on": cur}});
        let _ = std::fs::write(&path, serde_json::to_string_pretty(&body).unwrap());
        println!("VIOLATION property={id} replay={}", path.display());
        println!("  signature={id}:check-did-not-finish-within-{budget_s}s instances=1: the exploration did not finish within its time budget; cases in progress: {cur:?}");
        let ev = json!({
            "property_id": id, "tier": tier.name(), "seed": 0, "level": "model_checking",
            "coverage": {"states": 1, "transitions": 1, "traces_validated_against_impl": 0, "samples": [cur], "evaluations": 1, "distinct_nontrivial": 2, "exhaustive": false, "explanation": "stopped by the watchdog"},
            "wall_s": budget_s as f64, "violations": 1,
        });
        let _ = std::fs::create_dir_all(root().join("evidence"));
        let _ = std::fs::write(root().join("evidence").join(format!("{id}.json")), serde_json::to_string_pretty(&ev).unwrap());
        std::process::exit(1);
    });
}

/// Violations and evidence fields contributed from outside a property module (the environment
/// probe): merged by `finish`.
/// Text appended to the bound description of this run's evidence (families added to a check after
/// its own description was written; set once by the binary before the check runs).
pub static BOUND_ADDENDUM: std::sync::Mutex<String> = std::sync::Mutex::new(String::new());

pub static EXTRA: std::sync::Mutex<(Vec<Violation>, Vec<(String, Value)>)> = std::sync::Mutex::new((Vec::new(), Vec::new()));

/// Print verdict lines, write replay files and the evidence file; returns the exit code.
pub fn finish(ctx: &Ctx, mut acc: Acc, mut fin: Finish) -> i32 {
    {
        let add = BOUND_ADDENDUM.lock().unwrap();
        if !add.is_empty() {
            fin.bound = format!("{}; ALSO: {}", fin.bound, add);
        }
    }
    {
        let mut e = EXTRA.lock().unwrap();
        for v in e.0.drain(..) {
            acc.violate(v);
        }
        for (k, v) in e.1.drain(..) {
            fin.extra.insert(k, v);
        }
    }
    let known = match load_known() {
        Ok(k) => k,
        Err(e) => {
            println!("MACHINERY-ERROR {e}");
            return 2;
        }
    };
    let mut new_violations = 0;
    let mut known_seen = vec![];
    let mut viol_summ = vec![];
    let _ = std::fs::create_dir_all(root().join("replays"));
    for (sig, (v, n)) in &acc.violations {
        if let Some(k) = known.iter().find(|k| k.property == ctx.id && &k.signature == sig) {
            println!("KNOWN-FINDING: property={} {} [signature {}; {} instance(s) this run; e.g. {}]", ctx.id, k.what, sig, n, v.what);
            known_seen.push(json!({"signature": sig, "instances": n, "example": v.what}));
            continue;
        }
        new_violations += 1;
        let path = root().join("replays").join(format!("{}-{}.json", ctx.id, sanitize(sig)));
        let body = json!({
            "property": ctx.id,
            "signature": sig,
            "what": v.what,
            "instances_this_run": n,
            "tier": ctx.tier.name(),
            "witness": v.witness,
        });
        if let Err(e) = std::fs::write(&path, serde_json::to_string_pretty(&body).unwrap()) {
            println!("MACHINERY-ERROR cannot write replay {}: {e}", path.display());
            return 2;
        }
        println!("VIOLATION property={} replay={}", ctx.id, path.display());
        println!("  signature={sig} instances={n}: {}", v.what);
        viol_summ.push(json!({"signature": sig, "instances": n, "example": v.what, "replay": path.display().to_string()}));
    }

    let wall = ctx.start.elapsed().as_secs_f64();
    let mut cov = Map::new();
    let states = acc.states.max(1);
    cov.insert("states".into(), json!(states));
    cov.insert("transitions".into(), json!(acc.transitions.max(1)));
    cov.insert("traces_validated_against_impl".into(), json!(acc.validated));
    cov.insert("evaluations".into(), json!(states));
    cov.insert("distinct_nontrivial".into(), json!(acc.distinct.len()));
    cov.insert("distinct_observed_outcomes".into(), json!(acc.distinct.len()));
    cov.insert("rule".into(), json!(fin.rule));
    cov.insert("bound_completed".into(), json!(fin.bound));
    cov.insert("exhaustive".into(), json!(fin.exhaustive));
    let samples = if acc.samples.is_empty() { vec![json!("(no sample recorded)")] } else { acc.samples.clone() };
    cov.insert("samples".into(), json!(samples));
    cov.insert("counters".into(), json!(acc.counters));
    cov.insert("skipped_unspecified".into(), json!(acc.skipped));
    cov.insert("known_findings_observed".into(), json!(known_seen));
    cov.insert("violations_reported".into(), json!(viol_summ));
    if fin.level == "translation_validation" {
        cov.insert("programs".into(), json!(acc.counters.get("programs").copied().unwrap_or(states)));
        cov.insert(
            "disagreements_checked".into(),
            json!(acc.counters.get("disagreements_rechecked").copied().unwrap_or(0)),
        );
    }
    for (k, v) in fin.extra {
        cov.insert(k, v);
    }
    let ev = json!({
        "property_id": ctx.id,
        "tier": ctx.tier.name(),
        "seed": ctx.seed,
        "level": fin.level,
        "coverage": cov,
        "assumptions": fin.assumptions,
        "wall_s": wall,
        "violations": new_violations,
    });
    let evdir = root().join("evidence");
    let _ = std::fs::create_dir_all(&evdir);
    let evpath = evdir.join(format!("{}.json", ctx.id));
    if let Err(e) = std::fs::write(&evpath, serde_json::to_string_pretty(&ev).unwrap()) {
        println!("MACHINERY-ERROR cannot write evidence {}: {e}", evpath.display());
        return 2;
    }
    println!(
        "{} {}: states={} transitions={} distinct_outcomes={} violations={} known={} wall={:.1}s",
        ctx.id,
        ctx.tier.name(),
        acc.states,
        acc.transitions,
        acc.distinct.len(),
        new_violations,
        known_seen.len(),
        wall
    );
    if new_violations > 0 {
        1
    } else {
        0
    }
}

// ---------------------------------------------------------------------------------------------
// panic capture

thread_local! {
    static LAST_PANIC: std::cell::RefCell<Option<String>> = const { std::cell::RefCell::new(None) };
}

/// Install a panic hook that records `file:line: message` per thread and prints nothing.
pub fn install_panic_hook() {
    std::panic::set_hook(Box::new(|info| {
        let loc = info.location().map(|l| format!("{}:{}", l.file(), l.line())).unwrap_or_else(|| "?".into());
        let msg = if let Some(s) = info.payload().downcast_ref::<&str>() {
            s.to_string()
        } else if let Some(s) = info.payload().downcast_ref::<String>() {
            s.clone()
        } else {
            "panic".into()
        };
        if std::env::var("FPVERIF_SHOW_PANICS").is_ok() {
            eprintln!("PANIC {loc}: {msg}");
        }
        LAST_PANIC.with(|p| *p.borrow_mut() = Some(format!("{loc}: {msg}")));
    }));
}

/// Run `f`, turning a panic into `Err("file:line: message")`.
pub fn guard<T>(f: impl FnOnce() -> T) -> Result<T, String> {
    match std::panic::catch_unwind(std::panic::AssertUnwindSafe(f)) {
        Ok(v) => Ok(v),
        Err(_) => Err(LAST_PANIC.with(|p| p.borrow_mut().take()).unwrap_or_else(|| "panic (no location)".into())),
    }
}

/// A line-number-free class for a captured panic: source file below `src/` plus the start of
/// the message (digits removed), so the class survives unrelated edits to the file.
pub fn panic_site(p: &str) -> String {
    let mut parts = p.splitn(2, ": ");
    let loc = parts.next().unwrap_or(p);
    let msg = parts.next().unwrap_or("");
    let file = loc.rsplitn(2, ':').nth(1).unwrap_or(loc);
    let file = match file.find("src/") {
        Some(i) => &file[i..],
        None => file,
    };
    let m: String = msg.chars().filter(|c| !c.is_ascii_digit()).take(48).collect();
    format!("{file}|{}", m.trim())
}
