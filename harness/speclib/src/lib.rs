//! Implementation-independent half of the verification harness: spec-side syntax, reference
//! models, the Scheme reader/evaluator/runtime model, exploration and reporting utilities.
//! Nothing in this crate depends on the subject (lipe-find-parser).
pub mod ast;
pub mod grammar;
pub mod record;
pub mod scm;
pub mod words;
pub mod report;
pub mod textspec;
pub mod eval;
pub mod trees;
pub mod directed;
