//! Reference recogniser / tree builder for find's operator grammar (property C01).
//!
//!   list := or  ( ','  or  )*            lowest precedence
//!   or   := and ( OR   and )*
//!   and  := atom ( AND atom | atom )*    juxtaposition is AND
//!   atom := PRIMARY | '!' atom | '(' list ')'
//!
//! All binary operators fold to the left; parentheses return their inner tree.  The whole word
//! sequence must be consumed.  Hand-written recursive descent, no parser library.
use crate::ast::Expr;

#[derive(Clone, Debug, PartialEq)]
pub enum Tok {
    LParen,
    RParen,
    Not,
    Comma,
    And,
    Or,
    Prim(Expr),
}

pub fn parse(toks: &[Tok]) -> Option<Expr> {
    let mut p = P { t: toks, i: 0 };
    let e = p.list()?;
    (p.i == toks.len()).then_some(e)
}

struct P<'a> {
    t: &'a [Tok],
    i: usize,
}

impl<'a> P<'a> {
    fn peek(&self) -> Option<&'a Tok> {
        self.t.get(self.i)
    }
    fn list(&mut self) -> Option<Expr> {
        let mut acc = self.or()?;
        while let Some(Tok::Comma) = self.peek() {
            self.i += 1;
            let rhs = self.or()?;
            acc = Expr::list(acc, rhs);
        }
        Some(acc)
    }
    fn or(&mut self) -> Option<Expr> {
        let mut acc = self.and()?;
        while let Some(Tok::Or) = self.peek() {
            self.i += 1;
            let rhs = self.and()?;
            acc = Expr::or(acc, rhs);
        }
        Some(acc)
    }
    fn and(&mut self) -> Option<Expr> {
        let mut acc = self.atom()?;
        loop {
            match self.peek() {
                Some(Tok::And) => {
                    self.i += 1;
                    let rhs = self.atom()?;
                    acc = Expr::and(acc, rhs);
                }
                Some(Tok::Prim(_)) | Some(Tok::Not) | Some(Tok::LParen) => {
                    let rhs = self.atom()?;
                    acc = Expr::and(acc, rhs);
                }
                _ => return Some(acc),
            }
        }
    }
    fn atom(&mut self) -> Option<Expr> {
        match self.peek()? {
            Tok::Prim(e) => {
                self.i += 1;
                Some(e.clone())
            }
            Tok::Not => {
                self.i += 1;
                Some(Expr::not(self.atom()?))
            }
            Tok::LParen => {
                self.i += 1;
                let e = self.list()?;
                match self.peek() {
                    Some(Tok::RParen) => {
                        self.i += 1;
                        Some(e)
                    }
                    _ => None,
                }
            }
            _ => None,
        }
    }
}

/// Number of accepted token-class sequences of each length 0..=n over an alphabet with
/// `prims` distinct primary words, `ands` spellings of AND, `ors` spellings of OR (and one
/// each of `(`, `)`, `!`, `,`), computed by dynamic programming over the grammar written as a
/// pushdown-free counting recurrence — used to cross-check the recogniser itself.
///
/// L(n), O(n), A(n), T(n) = number of strings of length n derivable from list/or/and/atom.
pub fn count_sentences(n: usize, prims: u128, ands: u128, ors: u128) -> Vec<u128> {
    // T(n) = prims*[n==1] + T(n-1) ('!' atom) + L(n-2) ('(' list ')')
    // A(n) = T(n) + sum_{k} A(k) * (ands*T(n-k-1) + T(n-k))       (left fold: A -> A AND T | A T)
    // O(n) = A(n) + sum_{k} O(k) * ors * A(n-k-1)
    // L(n) = O(n) + sum_{k} L(k) * O(n-k-1)
    // The grammar is unambiguous (each sentence has exactly one derivation), so counting
    // derivations counts sentences.
    let mut t = vec![0u128; n + 1];
    let mut a = vec![0u128; n + 1];
    let mut o = vec![0u128; n + 1];
    let mut l = vec![0u128; n + 1];
    for m in 1..=n {
        let mut tv = if m == 1 { prims } else { 0 };
        tv += t[m - 1];
        if m >= 3 {
            tv += l[m - 2];
        }
        t[m] = tv;
        let mut av = tv;
        for k in 1..m {
            // A(k) then explicit AND then atom of length m-k-1
            if m - k >= 2 {
                av += a[k] * ands * t[m - k - 1];
            }
            av += a[k] * t[m - k];
        }
        a[m] = av;
        let mut ov = av;
        for k in 1..m {
            if m - k >= 2 {
                ov += o[k] * ors * a[m - k - 1];
            }
        }
        o[m] = ov;
        let mut lv = ov;
        for k in 1..m {
            if m - k >= 2 {
                lv += l[k] * o[m - k - 1];
            }
        }
        l[m] = lv;
    }
    l
}

#[cfg(test)]
mod tests {
    use super::*;
    use crate::ast::{Expr, Test};

    #[test]
    fn basic() {
        let p = Tok::Prim(Expr::Test(Test::True));
        assert!(parse(&[p.clone()]).is_some());
        assert!(parse(&[p.clone(), Tok::Or]).is_none());
        assert!(parse(&[Tok::LParen, Tok::RParen]).is_none());
        let e = parse(&[p.clone(), Tok::Or, p.clone(), p.clone()]).unwrap();
        assert_eq!(e.show(), "(or True (and True True))");
    }

    #[test]
    fn counting_matches_bruteforce() {
        // alphabet: ( ) ! , AND OR P
        let alpha = [Tok::LParen, Tok::RParen, Tok::Not, Tok::Comma, Tok::And, Tok::Or, Tok::Prim(Expr::Test(Test::True))];
        let counts = count_sentences(6, 1, 1, 1);
        for n in 1..=6usize {
            let mut c = 0u128;
            let total = alpha.len().pow(n as u32);
            for mut idx in 0..total {
                let mut s = vec![];
                for _ in 0..n {
                    s.push(alpha[idx % alpha.len()].clone());
                    idx /= alpha.len();
                }
                if parse(&s).is_some() {
                    c += 1;
                }
            }
            assert_eq!(c, counts[n], "length {n}");
        }
    }
}
