//! Spec-side abstract syntax of find expressions.  Written from find's documentation and the
//! property statements; deliberately independent of the subject's `ast` module (the harness
//! binary converts between the two through the subject's *public* enums only).
use serde::{Deserialize, Serialize};

#[derive(Clone, Copy, Debug, PartialEq, Eq, Hash, PartialOrd, Ord, Serialize, Deserialize)]
pub enum Cmp {
    Gt,
    Lt,
    Eq,
}

#[derive(Clone, Copy, Debug, PartialEq, Eq, Hash, PartialOrd, Ord, Serialize, Deserialize)]
pub enum SizeUnit {
    Byte,
    Word,
    Block,
    Kilo,
    Mega,
    Giga,
    Tera,
}

impl SizeUnit {
    pub const ALL: [SizeUnit; 7] = [
        SizeUnit::Byte,
        SizeUnit::Word,
        SizeUnit::Block,
        SizeUnit::Kilo,
        SizeUnit::Mega,
        SizeUnit::Giga,
        SizeUnit::Tera,
    ];
    /// bytes per unit, from find(1): c=1, w=2, b=512, k=2^10, M=2^20, G=2^30, T=2^40 (LiPE ext.)
    pub fn bytes(self) -> u128 {
        match self {
            SizeUnit::Byte => 1,
            SizeUnit::Word => 2,
            SizeUnit::Block => 512,
            SizeUnit::Kilo => 1 << 10,
            SizeUnit::Mega => 1 << 20,
            SizeUnit::Giga => 1 << 30,
            SizeUnit::Tera => 1 << 40,
        }
    }
    pub fn letter(self) -> char {
        match self {
            SizeUnit::Byte => 'c',
            SizeUnit::Word => 'w',
            SizeUnit::Block => 'b',
            SizeUnit::Kilo => 'k',
            SizeUnit::Mega => 'M',
            SizeUnit::Giga => 'G',
            SizeUnit::Tera => 'T',
        }
    }
}

#[derive(Clone, Copy, Debug, PartialEq, Eq, Hash, PartialOrd, Ord, Serialize, Deserialize)]
pub enum TimeUnit {
    Sec,
    Min,
    Hour,
    Day,
}

impl TimeUnit {
    pub const ALL: [TimeUnit; 4] = [TimeUnit::Sec, TimeUnit::Min, TimeUnit::Hour, TimeUnit::Day];
    pub fn secs(self) -> u128 {
        match self {
            TimeUnit::Sec => 1,
            TimeUnit::Min => 60,
            TimeUnit::Hour => 3600,
            TimeUnit::Day => 86400,
        }
    }
    pub fn letter(self) -> char {
        match self {
            TimeUnit::Sec => 's',
            TimeUnit::Min => 'm',
            TimeUnit::Hour => 'h',
            TimeUnit::Day => 'd',
        }
    }
}

#[derive(Clone, Copy, Debug, PartialEq, Eq, Hash, PartialOrd, Ord, Serialize, Deserialize)]
pub enum FType {
    Block,
    Char,
    Dir,
    Pipe,
    File,
    Link,
    Sock,
}

impl FType {
    pub const ALL: [FType; 7] = [
        FType::Block,
        FType::Char,
        FType::Dir,
        FType::Pipe,
        FType::File,
        FType::Link,
        FType::Sock,
    ];
    pub fn letter(self) -> char {
        match self {
            FType::Block => 'b',
            FType::Char => 'c',
            FType::Dir => 'd',
            FType::Pipe => 'p',
            FType::File => 'f',
            FType::Link => 'l',
            FType::Sock => 's',
        }
    }
    /// S_IFMT value from <sys/stat.h>
    pub fn ifmt(self) -> u32 {
        match self {
            FType::Sock => 0o140000,
            FType::Link => 0o120000,
            FType::File => 0o100000,
            FType::Block => 0o060000,
            FType::Dir => 0o040000,
            FType::Char => 0o020000,
            FType::Pipe => 0o010000,
        }
    }
}

#[derive(Clone, Copy, Debug, PartialEq, Eq, Hash, PartialOrd, Ord, Serialize, Deserialize)]
pub enum PermKind {
    /// `-perm -MODE`: all of the bits set
    AtLeast,
    /// `-perm /MODE`: any of the bits set
    Any,
    /// `-perm MODE`: permission bits exactly MODE
    Equal,
}

#[derive(Clone, Debug, PartialEq, Eq, Hash, PartialOrd, Ord, Serialize, Deserialize)]
pub enum Special {
    Alarm,
    Backspace,
    Clear,
    Form,
    Newline,
    CarriageReturn,
    Tab,
    VTab,
    Null,
    Backslash,
    Ascii(u16),
}

#[derive(Clone, Debug, PartialEq, Eq, Hash, PartialOrd, Ord, Serialize, Deserialize)]
pub enum Field {
    Percent,
    Access,
    AccessFmt(char),
    DiskBlocks,
    Change,
    ChangeFmt(char),
    Depth,
    DevNum,
    Basename,
    FsType,
    Group,
    GroupId,
    Parents,
    StartingPoint,
    Inode,
    DiskKilos,
    SymTarget,
    PermOctal,
    PermSymbolic,
    Hardlinks,
    Name,
    NameNoStart,
    SizeBytes,
    Sparseness,
    Modify,
    ModifyFmt(char),
    User,
    UserId,
    Type,
    TypeSymlink,
    SecContext,
    FileId,
    ProjectId,
    MirrorCount,
    StripeCount,
    StripeSize,
    XAttr(String),
}

#[derive(Clone, Debug, PartialEq, Eq, Hash, PartialOrd, Ord, Serialize, Deserialize)]
pub enum Fmt {
    Lit(String),
    Field(Field),
    Special(Special),
}

#[derive(Clone, Debug, PartialEq, Eq, Hash, PartialOrd, Ord, Serialize, Deserialize)]
pub enum Test {
    ATime(Cmp, u64, TimeUnit),
    CTime(Cmp, u64, TimeUnit),
    MTime(Cmp, u64, TimeUnit),
    Empty,
    Executable,
    False,
    Gid(Cmp, u64),
    Inum(Cmp, u64),
    IName(String),
    IPath(String),
    Links(Cmp, u64),
    MirrorCount(Cmp, u64),
    Name(String),
    Path(String),
    Perm(PermKind, u32),
    Pool(String),
    Readable,
    Size(Cmp, u64, SizeUnit),
    StripeCount(Cmp, u64),
    True,
    Type(Vec<FType>),
    Uid(Cmp, u64),
    Writable,
    Xattr(String),
    XattrMatch(String, String),
    // recognised by the parser, not expressible in the target
    ANewer(String),
    CNewer(String),
    FsType(String),
    Group(String),
    ILName(String),
    IRegex(String),
    LName(String),
    MNewer(String),
    NoGroup,
    NoUser,
    Regex(String),
    Samefile(String),
    User(String),
}

#[derive(Clone, Debug, PartialEq, Eq, Hash, PartialOrd, Ord, Serialize, Deserialize)]
pub enum Action {
    Fls(String),
    FPrint(String),
    FPrint0(String),
    FPrintf(String, Vec<Fmt>),
    Ls,
    Print,
    Print0,
    Printf(Vec<Fmt>),
    PrintFid,
    Prune,
    Quit,
    DefaultPrint,
}

#[derive(Clone, Debug, PartialEq, Eq, Hash, PartialOrd, Ord, Serialize, Deserialize)]
pub enum Global {
    Depth,
    MaxDepth(u64),
    MinDepth(u64),
    Threads(u64),
}

#[derive(Clone, Debug, PartialEq, Eq, Hash, PartialOrd, Ord, Serialize, Deserialize)]
pub enum Expr {
    Not(Box<Expr>),
    And(Box<Expr>, Box<Expr>),
    Or(Box<Expr>, Box<Expr>),
    List(Box<Expr>, Box<Expr>),
    Prec(Box<Expr>),
    Test(Test),
    Action(Action),
    Global(Global),
    Positional,
}

impl Expr {
    pub fn not(e: Expr) -> Expr {
        Expr::Not(Box::new(e))
    }
    pub fn and(a: Expr, b: Expr) -> Expr {
        Expr::And(Box::new(a), Box::new(b))
    }
    pub fn or(a: Expr, b: Expr) -> Expr {
        Expr::Or(Box::new(a), Box::new(b))
    }
    pub fn list(a: Expr, b: Expr) -> Expr {
        Expr::List(Box::new(a), Box::new(b))
    }
    pub fn prec(e: Expr) -> Expr {
        Expr::Prec(Box::new(e))
    }
    pub fn t(t: Test) -> Expr {
        Expr::Test(t)
    }
    pub fn a(a: Action) -> Expr {
        Expr::Action(a)
    }

    /// Compact s-expression form, the canonical rendering used in reports and for equality.
    pub fn show(&self) -> String {
        match self {
            Expr::Not(e) => format!("(not {})", e.show()),
            Expr::And(a, b) => format!("(and {} {})", a.show(), b.show()),
            Expr::Or(a, b) => format!("(or {} {})", a.show(), b.show()),
            Expr::List(a, b) => format!("(list {} {})", a.show(), b.show()),
            Expr::Prec(e) => format!("(prec {})", e.show()),
            Expr::Test(t) => format!("{t:?}"),
            Expr::Action(a) => format!("{a:?}"),
            Expr::Global(g) => format!("Global({g:?})"),
            Expr::Positional => "Positional".into(),
        }
    }

    pub fn leaves(&self) -> usize {
        match self {
            Expr::Not(e) | Expr::Prec(e) => e.leaves(),
            Expr::And(a, b) | Expr::Or(a, b) | Expr::List(a, b) => a.leaves() + b.leaves(),
            _ => 1,
        }
    }

    pub fn depth(&self) -> usize {
        match self {
            Expr::Not(e) | Expr::Prec(e) => 1 + e.depth(),
            Expr::And(a, b) | Expr::Or(a, b) | Expr::List(a, b) => 1 + a.depth().max(b.depth()),
            _ => 0,
        }
    }

    /// Independent definition of "contains an action at some depth".
    pub fn has_action(&self) -> bool {
        match self {
            Expr::Action(_) => true,
            Expr::Not(e) | Expr::Prec(e) => e.has_action(),
            Expr::And(a, b) | Expr::Or(a, b) | Expr::List(a, b) => a.has_action() || b.has_action(),
            Expr::Test(_) | Expr::Global(_) | Expr::Positional => false,
        }
    }

    /// Independent definition of the framed-output rule (property C10/C19): some action writes
    /// to a file, is NUL-terminated, or is a formatted print whose last element is not a
    /// newline escape.
    pub fn needs_framing(&self) -> bool {
        match self {
            Expr::Action(a) => a.needs_framing(),
            Expr::Not(e) | Expr::Prec(e) => e.needs_framing(),
            Expr::And(a, b) | Expr::Or(a, b) | Expr::List(a, b) => {
                a.needs_framing() || b.needs_framing()
            }
            _ => false,
        }
    }

    pub fn visit_leaves<'a>(&'a self, f: &mut dyn FnMut(&'a Expr)) {
        match self {
            Expr::Not(e) | Expr::Prec(e) => e.visit_leaves(f),
            Expr::And(a, b) | Expr::Or(a, b) | Expr::List(a, b) => {
                a.visit_leaves(f);
                b.visit_leaves(f)
            }
            leaf => f(leaf),
        }
    }
}

impl Action {
    pub fn needs_framing(&self) -> bool {
        match self {
            Action::Print0 => true,
            Action::Fls(_) | Action::FPrint(_) | Action::FPrint0(_) | Action::FPrintf(_, _) => true,
            Action::Printf(f) => match f.last() {
                None => false, // empty format: nothing printed, rule says "last element is not a newline": no last element
                Some(Fmt::Special(Special::Newline)) => false,
                Some(_) => true,
            },
            Action::Ls
            | Action::Print
            | Action::PrintFid
            | Action::Prune
            | Action::Quit
            | Action::DefaultPrint => false,
        }
    }
}
