//! Directed file records: for every constant of an expression the attribute values around it.
use crate::ast::*;
use crate::eval;
use crate::record::Record;

type Mutation = Box<dyn Fn(&mut Record)>;

fn swapcase(s: &str) -> String {
    s.chars().map(|c| if c.is_lowercase() { c.to_uppercase().next().unwrap() } else { c.to_lowercase().next().unwrap() }).collect()
}

/// A string matched by the glob (for the simple globs of the menus).
fn instance(p: &str) -> String {
    let mut out = String::new();
    let cs: Vec<char> = p.chars().collect();
    let mut i = 0;
    while i < cs.len() {
        match cs[i] {
            '*' => out.push_str("Qq"),
            '?' => out.push('q'),
            '[' => {
                let mut j = i + 1;
                if j < cs.len() && (cs[j] == '!' || cs[j] == '^') {
                    out.push('~');
                    while j < cs.len() && cs[j] != ']' {
                        j += 1;
                    }
                } else if j < cs.len() {
                    out.push(cs[j]);
                    j += 1;
                    while j < cs.len() && cs[j] != ']' {
                        j += 1;
                    }
                }
                i = j;
            }
            '\\' if i + 1 < cs.len() => {
                out.push(cs[i + 1]);
                i += 1;
            }
            c => out.push(c),
        }
        i += 1;
    }
    out
}

fn around(n: u64) -> Vec<u64> {
    let mut v = vec![n];
    if n > 0 {
        v.push(n - 1);
    }
    if n < u64::MAX {
        v.push(n + 1);
    }
    v
}

fn names_for(p: &str) -> Vec<String> {
    let inst = instance(p);
    vec![inst.clone(), swapcase(&inst), format!("{inst}x"), format!("x{inst}"), "zzz".into(), p.to_string()]
}

pub fn mutations_for(leaf: &Expr, now: u64) -> Vec<Mutation> {
    let mut m: Vec<Mutation> = vec![];
    macro_rules! num {
        ($n:expr, $field:ident) => {
            for v in around(*$n) {
                m.push(Box::new(move |r: &mut Record| r.$field = v));
            }
        };
    }
    macro_rules! age {
        ($n:expr, $u:expr, $field:ident) => {{
            let s = $u.secs();
            let n = *$n as u128;
            let mut ages: Vec<u128> = vec![n * s, n * s + 1, (n + 1) * s, (n + 1) * s + 1];
            if n * s > 0 {
                ages.push(n * s - 1);
            }
            if (n + 1) * s > 0 {
                ages.push((n + 1) * s - 1);
            }
            if n > 0 {
                ages.push((n - 1) * s);
            }
            for a in ages {
                if a <= now as u128 {
                    let t = now - a as u64;
                    m.push(Box::new(move |r: &mut Record| r.$field = t));
                }
            }
        }};
    }
    match leaf {
        Expr::Test(t) => match t {
            Test::Uid(_, n) => num!(n, uid),
            Test::Gid(_, n) => num!(n, gid),
            Test::Inum(_, n) => num!(n, ino),
            Test::Links(_, n) => num!(n, nlink),
            Test::MirrorCount(_, n) => num!(n, mirror_count),
            Test::StripeCount(_, n) => num!(n, stripe_count),
            Test::Size(_, n, u) => {
                let b = u.bytes();
                let n = *n as u128;
                let mut sizes: Vec<u128> = vec![n * b, n * b + 1, (n + 1) * b, (n + 1) * b + 1];
                if n * b > 0 {
                    sizes.push(n * b - 1);
                }
                if n > 0 {
                    sizes.push((n - 1) * b);
                    sizes.push((n - 1) * b + 1);
                }
                for s in sizes {
                    if s <= u64::MAX as u128 {
                        let s = s as u64;
                        m.push(Box::new(move |r: &mut Record| r.size = s));
                    }
                }
            }
            Test::ATime(_, n, u) => age!(n, u, atime),
            Test::CTime(_, n, u) => age!(n, u, ctime),
            Test::MTime(_, n, u) => age!(n, u, mtime),
            Test::Perm(_, bits) => {
                let bits = *bits;
                let mut modes = vec![bits, 0, 0o7777];
                for b in 0..12 {
                    modes.push(bits ^ (1 << b));
                }
                for md in modes {
                    m.push(Box::new(move |r: &mut Record| r.mode = 0o100000 | md));
                }
            }
            Test::Type(_) => {
                for t in FType::ALL {
                    m.push(Box::new(move |r: &mut Record| r.mode = t.ifmt() | 0o644));
                }
            }
            Test::Name(p) | Test::IName(p) => {
                for n in names_for(p) {
                    m.push(Box::new(move |r: &mut Record| r.name = n.clone()));
                }
            }
            Test::Path(p) | Test::IPath(p) => {
                for n in names_for(p) {
                    m.push(Box::new(move |r: &mut Record| r.rel_path = n.clone()));
                }
            }
            Test::Pool(p) => {
                let p = p.clone();
                let sets: Vec<Vec<String>> = vec![vec![p.clone()], vec![], vec!["other".into()], vec!["other".into(), p.clone()], vec![swapcase(&p)]];
                for s in sets {
                    m.push(Box::new(move |r: &mut Record| r.pools = s.clone()));
                }
            }
            Test::Xattr(n) => {
                let n = n.clone();
                let sets: Vec<Vec<(String, String)>> =
                    vec![vec![(n.clone(), "v".into())], vec![], vec![("other".into(), "v".into())], vec![("other".into(), "v".into()), (n.clone(), "".into())]];
                for s in sets {
                    m.push(Box::new(move |r: &mut Record| r.xattrs = s.clone()));
                }
            }
            Test::XattrMatch(n, v) => {
                let (ni, vi) = (instance(n), instance(v));
                let sets: Vec<Vec<(String, String)>> = vec![
                    vec![(ni.clone(), vi.clone())],
                    vec![(ni.clone(), format!("{vi}zz"))],
                    vec![(format!("{ni}zz"), vi.clone())],
                    vec![],
                    vec![("other".into(), "w".into()), (ni.clone(), vi.clone())],
                    vec![(ni.clone(), swapcase(&vi))],
                ];
                for s in sets {
                    m.push(Box::new(move |r: &mut Record| r.xattrs = s.clone()));
                }
            }
            Test::Empty => {
                for b in [true, false] {
                    m.push(Box::new(move |r: &mut Record| r.empty = b));
                }
            }
            Test::Executable => {
                for b in [true, false] {
                    m.push(Box::new(move |r: &mut Record| r.executable = b));
                }
            }
            Test::Readable => {
                for b in [true, false] {
                    m.push(Box::new(move |r: &mut Record| r.readable = b));
                }
            }
            Test::Writable => {
                for b in [true, false] {
                    m.push(Box::new(move |r: &mut Record| r.writable = b));
                }
            }
            _ => {}
        },
        _ => {}
    }
    m
}

/// base records + one mutation at a time + the product of one true-making and one false-making
/// mutation per leaf (when the tree has at most 4 leaves with constants).
pub fn directed(tree: &Expr, now: u64) -> Vec<Record> {
    let base = Record::distinct(now);
    let mut zero = Record::zero();
    zero.atime = now;
    zero.ctime = now;
    zero.mtime = now;
    let mut out = vec![base.clone(), zero];
    let mut leaves: Vec<&Expr> = vec![];
    tree.visit_leaves(&mut |l| leaves.push(l));
    let mut reps: Vec<(Option<usize>, Option<usize>, Vec<Mutation>)> = vec![];
    for l in leaves {
        let ms = mutations_for(l, now);
        if ms.is_empty() {
            continue;
        }
        let (mut t, mut f) = (None, None);
        for (i, mu) in ms.iter().enumerate() {
            let mut r = base.clone();
            mu(&mut r);
            if let Expr::Test(tt) = l {
                match eval::test(tt, &r, now) {
                    Ok(true) if t.is_none() => t = Some(i),
                    Ok(false) if f.is_none() => f = Some(i),
                    _ => {}
                }
            }
            out.push(r);
        }
        reps.push((t, f, ms));
    }
    if (2..=4).contains(&reps.len()) {
        for mask in 0..(1u32 << reps.len()) {
            let mut r = base.clone();
            let mut ok = true;
            for (k, (t, f, ms)) in reps.iter().enumerate() {
                let pick = if mask & (1 << k) != 0 { t } else { f };
                match pick {
                    Some(i) => ms[*i](&mut r),
                    None => ok = false,
                }
            }
            if ok {
                out.push(r);
            }
        }
    }
    out.dedup();
    out
}
