//! Reference semantics of the command-line text: word splitting, vocabulary, argument
//! languages, global options, and the resulting (options, tree).  Written from find(1), the
//! doc comments in the subject's `ast.rs`, and the property statements.  Inputs whose meaning
//! those sources do not fix are classified `Unspecified` (DESIGN.md §2.3) and never judged.
use crate::ast::*;
use crate::grammar::{self, Tok};

#[derive(Clone, Debug, PartialEq, Eq, Hash, Default)]
pub struct Opts {
    pub depth: bool,
    pub threads: Option<u64>,
    pub max_depth: Option<u64>,
    pub min_depth: Option<u64>,
}

#[derive(Clone, Debug, PartialEq)]
pub enum Reject {
    /// a word in primary position that is no keyword
    UnknownWord(String),
    /// keyword, the offending argument word as written (unquoted value)
    BadArg(String, String),
    /// keyword whose argument is missing
    MissingArg(String),
    /// words are all fine, the operator grammar is not
    Grammar,
}

#[derive(Clone, Debug, PartialEq)]
pub enum Spec {
    Accept {
        opts: Opts,
        tree: Expr,
        /// the input uses -maxdepth/-mindepth: a clean rejection is equally acceptable
        may_reject: bool,
    },
    Reject(Reject),
    Unspecified(&'static str),
}

#[derive(Clone, Debug, PartialEq)]
pub enum Item {
    LParen,
    RParen,
    /// bare word
    Bare(String),
    /// quoted string (value without the quotes)
    Quoted(String),
}

pub fn is_blank(c: char) -> bool {
    c == ' ' || c == '\t' || c == '\r' || c == '\n'
}

/// Split into items; `Err(reason)` for layouts the sources leave open.
pub fn split(input: &str) -> Result<Vec<Item>, &'static str> {
    let cs: Vec<char> = input.chars().collect();
    let mut i = 0;
    let mut out = vec![];
    // true when the previous character allows an item to start here without a blank
    let mut can_start = true;
    while i < cs.len() {
        let c = cs[i];
        if is_blank(c) {
            i += 1;
            can_start = true;
            continue;
        }
        match c {
            '(' => {
                if !can_start {
                    return Err("'(' directly after a word");
                }
                out.push(Item::LParen);
                i += 1;
                can_start = true; // an item may touch the inside of a parenthesis
            }
            ')' => {
                out.push(Item::RParen);
                i += 1;
                // after ')' only blank, end or another ')' is specified
                if i < cs.len() && !is_blank(cs[i]) && cs[i] != ')' {
                    return Err("word directly after ')'");
                }
                can_start = false;
            }
            '\'' | '"' => {
                if !can_start {
                    return Err("quote inside a word");
                }
                let q = c;
                let mut j = i + 1;
                while j < cs.len() && cs[j] != q {
                    j += 1;
                }
                if j >= cs.len() {
                    return Err("unterminated quoted string");
                }
                if j == i + 1 {
                    return Err("empty quoted string");
                }
                out.push(Item::Quoted(cs[i + 1..j].iter().collect()));
                i = j + 1;
                if i < cs.len() && !is_blank(cs[i]) && cs[i] != ')' {
                    return Err("text directly after a closing quote");
                }
                can_start = false;
            }
            _ => {
                if !can_start {
                    return Err("word directly after ')' or a quote");
                }
                let mut j = i;
                while j < cs.len() && !is_blank(cs[j]) && cs[j] != ')' {
                    if cs[j] == '\'' || cs[j] == '"' {
                        return Err("quote inside a word");
                    }
                    if cs[j] == '(' {
                        return Err("'(' inside a word");
                    }
                    j += 1;
                }
                out.push(Item::Bare(cs[i..j].iter().collect()));
                i = j;
                can_start = false;
            }
        }
    }
    Ok(out)
}

#[derive(Clone, Copy, Debug, PartialEq, Eq)]
pub enum ArgKind {
    Str,
    U32Cmp,
    U64Cmp,
    SizeCmp,
    TimeCmpMin,
    TimeCmpDay,
    TypeList,
    Perm,
    Format,
    U32,
}

#[derive(Clone, Copy, Debug, PartialEq, Eq)]
pub enum Class {
    Test,
    Action,
    Global,
}

pub struct Kw {
    pub word: &'static str,
    pub class: Class,
    pub args: &'static [ArgKind],
}

use ArgKind as K;
pub const VOCAB: &[Kw] = &[
    Kw { word: "-amin", class: Class::Test, args: &[K::TimeCmpMin] },
    Kw { word: "-anewer", class: Class::Test, args: &[K::Str] },
    Kw { word: "-atime", class: Class::Test, args: &[K::TimeCmpDay] },
    Kw { word: "-cmin", class: Class::Test, args: &[K::TimeCmpMin] },
    Kw { word: "-cnewer", class: Class::Test, args: &[K::Str] },
    Kw { word: "-ctime", class: Class::Test, args: &[K::TimeCmpDay] },
    Kw { word: "-empty", class: Class::Test, args: &[] },
    Kw { word: "-executable", class: Class::Test, args: &[] },
    Kw { word: "-false", class: Class::Test, args: &[] },
    Kw { word: "-fstype", class: Class::Test, args: &[K::Str] },
    Kw { word: "-gid", class: Class::Test, args: &[K::U32Cmp] },
    Kw { word: "-group", class: Class::Test, args: &[K::Str] },
    Kw { word: "-ilname", class: Class::Test, args: &[K::Str] },
    Kw { word: "-iname", class: Class::Test, args: &[K::Str] },
    Kw { word: "-inum", class: Class::Test, args: &[K::U32Cmp] },
    Kw { word: "-ipath", class: Class::Test, args: &[K::Str] },
    Kw { word: "-iregex", class: Class::Test, args: &[K::Str] },
    Kw { word: "-links", class: Class::Test, args: &[K::U64Cmp] },
    Kw { word: "-mirror-count", class: Class::Test, args: &[K::U32Cmp] },
    Kw { word: "-mmin", class: Class::Test, args: &[K::TimeCmpMin] },
    Kw { word: "-mnewer", class: Class::Test, args: &[K::Str] },
    Kw { word: "-mtime", class: Class::Test, args: &[K::TimeCmpDay] },
    Kw { word: "-name", class: Class::Test, args: &[K::Str] },
    Kw { word: "-nouser", class: Class::Test, args: &[] },
    Kw { word: "-nogroup", class: Class::Test, args: &[] },
    Kw { word: "-path", class: Class::Test, args: &[K::Str] },
    Kw { word: "-perm", class: Class::Test, args: &[K::Perm] },
    Kw { word: "-pool", class: Class::Test, args: &[K::Str] },
    Kw { word: "-readable", class: Class::Test, args: &[] },
    Kw { word: "-regex", class: Class::Test, args: &[K::Str] },
    Kw { word: "-samefile", class: Class::Test, args: &[K::Str] },
    Kw { word: "-size", class: Class::Test, args: &[K::SizeCmp] },
    Kw { word: "-stripe-count", class: Class::Test, args: &[K::U32Cmp] },
    Kw { word: "-true", class: Class::Test, args: &[] },
    Kw { word: "-type", class: Class::Test, args: &[K::TypeList] },
    Kw { word: "-uid", class: Class::Test, args: &[K::U32Cmp] },
    Kw { word: "-user", class: Class::Test, args: &[K::Str] },
    Kw { word: "-xattr-match", class: Class::Test, args: &[K::Str, K::Str] },
    Kw { word: "-xattr", class: Class::Test, args: &[K::Str] },
    Kw { word: "-writable", class: Class::Test, args: &[] },
    Kw { word: "-fls", class: Class::Action, args: &[K::Str] },
    Kw { word: "-fprintf", class: Class::Action, args: &[K::Str, K::Format] },
    Kw { word: "-fprint0", class: Class::Action, args: &[K::Str] },
    Kw { word: "-fprint", class: Class::Action, args: &[K::Str] },
    Kw { word: "-ls", class: Class::Action, args: &[] },
    Kw { word: "-print-file-fid", class: Class::Action, args: &[] },
    Kw { word: "-printf", class: Class::Action, args: &[K::Format] },
    Kw { word: "-print0", class: Class::Action, args: &[] },
    Kw { word: "-print", class: Class::Action, args: &[] },
    Kw { word: "-prune", class: Class::Action, args: &[] },
    Kw { word: "-quit", class: Class::Action, args: &[] },
    Kw { word: "-depth", class: Class::Global, args: &[] },
    Kw { word: "-maxdepth", class: Class::Global, args: &[K::U32] },
    Kw { word: "-mindepth", class: Class::Global, args: &[K::U32] },
    Kw { word: "-threads", class: Class::Global, args: &[K::U32] },
];

pub const OPERATOR_WORDS: &[&str] = &["(", ")", "!", ",", "-a", "-and", "-o", "-or"];

pub fn lookup(word: &str) -> Option<&'static Kw> {
    VOCAB.iter().find(|k| k.word == word)
}

// ---------------------------------------------------------------------------------------------
// argument languages

/// Decimal digit run -> value, or None if it does not fit 128 bits.
fn digits_value(s: &str) -> Option<u128> {
    if s.is_empty() || !s.bytes().all(|b| b.is_ascii_digit()) {
        return None;
    }
    let t = s.trim_start_matches('0');
    if t.len() > 38 {
        return None; // certainly above 2^64
    }
    Some(if t.is_empty() { 0 } else { t.parse::<u128>().ok()? })
}

fn cmp_split(s: &str) -> (Cmp, &str) {
    if let Some(r) = s.strip_prefix('+') {
        (Cmp::Gt, r)
    } else if let Some(r) = s.strip_prefix('-') {
        (Cmp::Lt, r)
    } else {
        (Cmp::Eq, s)
    }
}

#[derive(Debug, Clone, PartialEq)]
pub enum ArgVal {
    Str(String),
    Num(Cmp, u64),
    Size(Cmp, u64, SizeUnit),
    Time(Cmp, u64, TimeUnit),
    Types(Vec<FType>),
    Perm(PermKind, u32),
    Format(Vec<Fmt>),
    Plain(u64),
}

pub enum ArgRes {
    Ok(ArgVal),
    Bad,
    Unspec(&'static str),
}

fn all_digits(s: &str) -> bool {
    !s.is_empty() && s.bytes().all(|b| b.is_ascii_digit())
}

pub fn parse_arg(kind: ArgKind, s: &str) -> ArgRes {
    match kind {
        K::Str => {
            if s.is_empty() {
                ArgRes::Unspec("empty string argument")
            } else {
                ArgRes::Ok(ArgVal::Str(s.to_string()))
            }
        }
        K::U32Cmp | K::U64Cmp => {
            let (c, d) = cmp_split(s);
            if !all_digits(d) {
                return ArgRes::Bad;
            }
            let max = if kind == K::U32Cmp { u32::MAX as u128 } else { u64::MAX as u128 };
            match digits_value(d) {
                Some(v) if v <= max => ArgRes::Ok(ArgVal::Num(c, v as u64)),
                _ => ArgRes::Bad,
            }
        }
        K::U32 => {
            if !all_digits(s) {
                return ArgRes::Bad;
            }
            match digits_value(s) {
                Some(v) if v <= u32::MAX as u128 => ArgRes::Ok(ArgVal::Plain(v as u64)),
                _ => ArgRes::Bad,
            }
        }
        K::SizeCmp => {
            let (c, d) = cmp_split(s);
            let (num, unit) = match d.chars().last() {
                Some(l) if !l.is_ascii_digit() => {
                    let u = match SizeUnit::ALL.iter().find(|u| u.letter() == l) {
                        Some(u) => *u,
                        None => return ArgRes::Bad,
                    };
                    (&d[..d.len() - l.len_utf8()], u)
                }
                _ => (d, SizeUnit::Block),
            };
            if !all_digits(num) {
                return ArgRes::Bad;
            }
            match digits_value(num) {
                Some(v) if v <= u64::MAX as u128 && v * unit.bytes() <= u64::MAX as u128 => {
                    ArgRes::Ok(ArgVal::Size(c, v as u64, unit))
                }
                _ => ArgRes::Bad,
            }
        }
        K::TimeCmpMin | K::TimeCmpDay => {
            let (c, d) = cmp_split(s);
            let default = if kind == K::TimeCmpMin { TimeUnit::Min } else { TimeUnit::Day };
            let (num, unit) = match d.chars().last() {
                Some(l) if !l.is_ascii_digit() => {
                    let u = match TimeUnit::ALL.iter().find(|u| u.letter() == l) {
                        Some(u) => *u,
                        None => return ArgRes::Bad,
                    };
                    (&d[..d.len() - l.len_utf8()], u)
                }
                _ => (d, default),
            };
            if !all_digits(num) {
                return ArgRes::Bad;
            }
            match digits_value(num) {
                Some(v) if v <= u64::MAX as u128 => ArgRes::Ok(ArgVal::Time(c, v as u64, unit)),
                _ => ArgRes::Bad,
            }
        }
        K::TypeList => {
            let mut out = vec![];
            if s.is_empty() {
                return ArgRes::Bad;
            }
            for part in s.split(',') {
                let mut cs = part.chars();
                match (cs.next(), cs.next()) {
                    (Some(c), None) => match FType::ALL.iter().find(|t| t.letter() == c) {
                        Some(t) => out.push(*t),
                        None => return ArgRes::Bad,
                    },
                    _ => return ArgRes::Bad,
                }
            }
            ArgRes::Ok(ArgVal::Types(out))
        }
        K::Perm => match perm(s) {
            PermRes::Ok(k, b) => ArgRes::Ok(ArgVal::Perm(k, b)),
            PermRes::Bad => ArgRes::Bad,
            PermRes::Unspec(r) => ArgRes::Unspec(r),
        },
        K::Format => match format(s) {
            FmtRes::Ok(f) => ArgRes::Ok(ArgVal::Format(f)),
            FmtRes::Bad => ArgRes::Bad,
            FmtRes::Unspec(r) => ArgRes::Unspec(r),
        },
    }
}

// ---- permissions ------------------------------------------------------------------------------

pub enum PermRes {
    Ok(PermKind, u32),
    Bad,
    Unspec(&'static str),
}

pub const WHO: [(char, u32); 4] = [('u', 0o700), ('g', 0o070), ('o', 0o007), ('a', 0o777)];
pub const PERM: [(char, u32); 3] = [('r', 0o444), ('w', 0o222), ('x', 0o111)];

/// chmod(1): apply one clause to a mode.
pub fn apply_clause(mode: u32, who: u32, op: char, perm: u32) -> u32 {
    match op {
        '+' => mode | (who & perm),
        '-' => mode & !(who & perm),
        '=' => (mode & !who) | (who & perm),
        _ => unreachable!(),
    }
}

/// Parse one symbolic clause of the supported subset `[ugoa]+[+-=][rwx]+`.
pub fn clause(s: &str) -> Option<(u32, char, u32)> {
    let cs: Vec<char> = s.chars().collect();
    let mut i = 0;
    let mut who = 0;
    while i < cs.len() {
        match WHO.iter().find(|(c, _)| *c == cs[i]) {
            Some((_, m)) => who |= m,
            None => break,
        }
        i += 1;
    }
    if i == 0 || i >= cs.len() || !"+-=".contains(cs[i]) {
        return None;
    }
    let op = cs[i];
    i += 1;
    let start = i;
    let mut perm = 0;
    while i < cs.len() {
        match PERM.iter().find(|(c, _)| *c == cs[i]) {
            Some((_, m)) => perm |= m,
            None => return None,
        }
        i += 1;
    }
    if i == start {
        return None;
    }
    Some((who, op, perm))
}

pub fn perm(s: &str) -> PermRes {
    let (kind, body) = if let Some(r) = s.strip_prefix('/') {
        (PermKind::Any, r)
    } else if let Some(r) = s.strip_prefix('-') {
        (PermKind::AtLeast, r)
    } else {
        (PermKind::Equal, s)
    };
    if body.is_empty() {
        return PermRes::Bad;
    }
    if body.chars().all(|c| ('0'..='7').contains(&c)) {
        let t = body.trim_start_matches('0');
        if t.len() > 4 {
            return PermRes::Bad; // value above 07777: not a mode
        }
        let v = if t.is_empty() { 0 } else { u32::from_str_radix(t, 8).unwrap() };
        return match body.len() {
            3 | 4 => PermRes::Ok(kind, v),
            0..=2 => PermRes::Unspec("octal mode with fewer than 3 digits"),
            _ => PermRes::Unspec("octal mode with more than 4 digits"),
        };
    }
    let mut mode = 0;
    for part in body.split(',') {
        match clause(part) {
            Some((who, op, p)) => mode = apply_clause(mode, who, op, p),
            None => {
                // GNU's symbolic language is larger than the supported subset; only text that
                // is clearly outside of it is certainly an error
                return if body.chars().all(|c| "ugoarwxXst+-=,".contains(c)) {
                    PermRes::Unspec("symbolic mode outside the [ugoa]+[+-=][rwx]+ subset")
                } else {
                    PermRes::Bad
                };
            }
        }
    }
    PermRes::Ok(kind, mode)
}

// ---- format strings ---------------------------------------------------------------------------

pub enum FmtRes {
    Ok(Vec<Fmt>),
    Bad,
    Unspec(&'static str),
}

/// GNU find's documented `%Ak` selectors.
pub const TIME_SELECTORS: &str = "@HIklMprSTXZ+aAbBcdDFhjmUwWxyY";

fn simple_field(c: char) -> Option<Field> {
    Some(match c {
        '%' => Field::Percent,
        'a' => Field::Access,
        'b' => Field::DiskBlocks,
        'c' => Field::Change,
        'd' => Field::Depth,
        'D' => Field::DevNum,
        'f' => Field::Basename,
        'F' => Field::FsType,
        'g' => Field::Group,
        'G' => Field::GroupId,
        'h' => Field::Parents,
        'H' => Field::StartingPoint,
        'i' => Field::Inode,
        'k' => Field::DiskKilos,
        'l' => Field::SymTarget,
        'm' => Field::PermOctal,
        'M' => Field::PermSymbolic,
        'n' => Field::Hardlinks,
        'p' => Field::Name,
        'P' => Field::NameNoStart,
        's' => Field::SizeBytes,
        'S' => Field::Sparseness,
        't' => Field::Modify,
        'u' => Field::User,
        'U' => Field::UserId,
        'y' => Field::Type,
        'Y' => Field::TypeSymlink,
        'Z' => Field::SecContext,
        _ => return None,
    })
}

/// The unique segmentation of a format string (property C14).  A self-standing backslash is
/// reported as `Special::Backslash` followed by the character as ordinary text.
pub fn format(s: &str) -> FmtRes {
    let cs: Vec<char> = s.chars().collect();
    let mut out: Vec<Fmt> = vec![];
    let mut lit = String::new();
    let mut i = 0;
    fn flush(lit: &mut String, out: &mut Vec<Fmt>) {
        if !lit.is_empty() {
            out.push(Fmt::Lit(std::mem::take(lit)));
        }
    }
    while i < cs.len() {
        let c = cs[i];
        if c == '%' {
            let n = match cs.get(i + 1) {
                Some(n) => *n,
                None => return FmtRes::Bad,
            };
            if let Some(f) = simple_field(n) {
                flush(&mut lit, &mut out);
                out.push(Fmt::Field(f));
                i += 2;
                continue;
            }
            match n {
                'A' | 'C' | 'T' => {
                    let k = match cs.get(i + 2) {
                        Some(k) => *k,
                        None => return FmtRes::Bad,
                    };
                    if !TIME_SELECTORS.contains(k) {
                        return FmtRes::Unspec("time directive with an undocumented selector");
                    }
                    flush(&mut lit, &mut out);
                    out.push(Fmt::Field(match n {
                        'A' => Field::AccessFmt(k),
                        'C' => Field::ChangeFmt(k),
                        _ => Field::ModifyFmt(k),
                    }));
                    i += 3;
                }
                '{' => {
                    let rest: String = cs[i + 1..].iter().collect();
                    let table: [(&str, Field); 5] = [
                        ("{fid}", Field::FileId),
                        ("{projid}", Field::ProjectId),
                        ("{mirror-count}", Field::MirrorCount),
                        ("{stripe-count}", Field::StripeCount),
                        ("{stripe-size}", Field::StripeSize),
                    ];
                    if let Some((t, f)) = table.iter().find(|(t, _)| rest.starts_with(t)) {
                        flush(&mut lit, &mut out);
                        out.push(Fmt::Field(f.clone()));
                        i += 1 + t.chars().count();
                    } else if let Some(r) = rest.strip_prefix("{xattr:") {
                        match r.find('}') {
                            Some(0) | None => return FmtRes::Bad,
                            Some(e) => {
                                let name = &r[..e];
                                // as documented in the subject's format grammar: NAME is a run of
                                // ASCII letters; anything else is not a directive
                                if !name.chars().all(|c| c.is_ascii_alphabetic()) {
                                    return FmtRes::Bad;
                                }
                                flush(&mut lit, &mut out);
                                out.push(Fmt::Field(Field::XAttr(name.to_string())));
                                i += 1 + "{xattr:".len() + name.chars().count() + 1;
                            }
                        }
                    } else {
                        return FmtRes::Bad;
                    }
                }
                '#' | '-' | '+' | ' ' | '.' | '0'..='9' => {
                    return FmtRes::Unspec("'%' followed by flags or a width");
                }
                _ => return FmtRes::Bad,
            }
        } else if c == '\\' {
            let n = cs.get(i + 1).copied();
            let sp = match n {
                Some('a') => Some(Special::Alarm),
                Some('b') => Some(Special::Backspace),
                Some('c') => Some(Special::Clear),
                Some('f') => Some(Special::Form),
                Some('n') => Some(Special::Newline),
                Some('r') => Some(Special::CarriageReturn),
                Some('t') => Some(Special::Tab),
                Some('v') => Some(Special::VTab),
                Some('\\') => Some(Special::Backslash),
                _ => None,
            };
            if let Some(sp) = sp {
                flush(&mut lit, &mut out);
                out.push(Fmt::Special(sp));
                i += 2;
                continue;
            }
            match n {
                Some(d) if ('0'..='7').contains(&d) => {
                    let run = cs[i + 1..].iter().take(3).take_while(|c| ('0'..='7').contains(*c)).count();
                    if run == 3 {
                        let v = cs[i + 1..i + 4].iter().fold(0u16, |a, c| a * 8 + c.to_digit(8).unwrap() as u16);
                        flush(&mut lit, &mut out);
                        out.push(Fmt::Special(Special::Ascii(v)));
                        i += 4;
                    } else if d == '0' && run == 1 {
                        flush(&mut lit, &mut out);
                        out.push(Fmt::Special(Special::Null));
                        i += 2;
                    } else {
                        return FmtRes::Unspec("octal escape with one or two digits");
                    }
                }
                _ => {
                    // a backslash before any other character (or at the end) stands for itself
                    flush(&mut lit, &mut out);
                    out.push(Fmt::Special(Special::Backslash));
                    i += 1;
                }
            }
        } else {
            lit.push(c);
            i += 1;
        }
    }
    flush(&mut lit, &mut out);
    FmtRes::Ok(out)
}

/// Representation-neutral form: self-standing backslashes and literal text merged into text runs.
#[derive(Clone, Debug, PartialEq, Eq, Hash)]
pub enum NormEl {
    Text(String),
    Field(Field),
    Special(Special),
}

pub fn normalise(f: &[Fmt]) -> Vec<NormEl> {
    let mut out: Vec<NormEl> = vec![];
    for e in f {
        let text = match e {
            Fmt::Lit(s) => Some(s.clone()),
            Fmt::Special(Special::Backslash) => Some("\\".to_string()),
            _ => None,
        };
        match text {
            Some(t) => match out.last_mut() {
                Some(NormEl::Text(prev)) => prev.push_str(&t),
                _ => out.push(NormEl::Text(t)),
            },
            None => out.push(match e {
                Fmt::Field(f) => NormEl::Field(f.clone()),
                Fmt::Special(s) => NormEl::Special(s.clone()),
                Fmt::Lit(_) => unreachable!(),
            }),
        }
    }
    out
}

// ---------------------------------------------------------------------------------------------
// whole inputs

fn build(kw: &Kw, vals: Vec<ArgVal>) -> Result<Tok, Global> {
    use ArgVal as V;
    let mut it = vals.into_iter();
    let mut next = || it.next().expect("argument count matches the vocabulary table");
    let s = |v: V| match v {
        V::Str(s) => s,
        _ => unreachable!(),
    };
    let num = |v: V| match v {
        V::Num(c, n) => (c, n),
        _ => unreachable!(),
    };
    let time = |v: V| match v {
        V::Time(c, n, u) => (c, n, u),
        _ => unreachable!(),
    };
    let t = |t: Test| Ok(Tok::Prim(Expr::Test(t)));
    let a = |a: Action| Ok(Tok::Prim(Expr::Action(a)));
    match kw.word {
        "-amin" | "-atime" => {
            let (c, n, u) = time(next());
            t(Test::ATime(c, n, u))
        }
        "-cmin" | "-ctime" => {
            let (c, n, u) = time(next());
            t(Test::CTime(c, n, u))
        }
        "-mmin" | "-mtime" => {
            let (c, n, u) = time(next());
            t(Test::MTime(c, n, u))
        }
        "-anewer" => t(Test::ANewer(s(next()))),
        "-cnewer" => t(Test::CNewer(s(next()))),
        "-mnewer" => t(Test::MNewer(s(next()))),
        "-empty" => t(Test::Empty),
        "-executable" => t(Test::Executable),
        "-false" => t(Test::False),
        "-fstype" => t(Test::FsType(s(next()))),
        "-gid" => {
            let (c, n) = num(next());
            t(Test::Gid(c, n))
        }
        "-group" => t(Test::Group(s(next()))),
        "-ilname" => t(Test::ILName(s(next()))),
        "-iname" => t(Test::IName(s(next()))),
        "-inum" => {
            let (c, n) = num(next());
            t(Test::Inum(c, n))
        }
        "-ipath" => t(Test::IPath(s(next()))),
        "-iregex" => t(Test::IRegex(s(next()))),
        "-links" => {
            let (c, n) = num(next());
            t(Test::Links(c, n))
        }
        "-mirror-count" => {
            let (c, n) = num(next());
            t(Test::MirrorCount(c, n))
        }
        "-name" => t(Test::Name(s(next()))),
        "-nouser" => t(Test::NoUser),
        "-nogroup" => t(Test::NoGroup),
        "-path" => t(Test::Path(s(next()))),
        "-perm" => match next() {
            V::Perm(k, b) => t(Test::Perm(k, b)),
            _ => unreachable!(),
        },
        "-pool" => t(Test::Pool(s(next()))),
        "-readable" => t(Test::Readable),
        "-regex" => t(Test::Regex(s(next()))),
        "-samefile" => t(Test::Samefile(s(next()))),
        "-size" => match next() {
            V::Size(c, n, u) => t(Test::Size(c, n, u)),
            _ => unreachable!(),
        },
        "-stripe-count" => {
            let (c, n) = num(next());
            t(Test::StripeCount(c, n))
        }
        "-true" => t(Test::True),
        "-type" => match next() {
            V::Types(l) => t(Test::Type(l)),
            _ => unreachable!(),
        },
        "-uid" => {
            let (c, n) = num(next());
            t(Test::Uid(c, n))
        }
        "-user" => t(Test::User(s(next()))),
        "-xattr-match" => {
            let n = s(next());
            let v = s(next());
            t(Test::XattrMatch(n, v))
        }
        "-xattr" => t(Test::Xattr(s(next()))),
        "-writable" => t(Test::Writable),
        "-fls" => a(Action::Fls(s(next()))),
        "-fprintf" => {
            let f = s(next());
            match next() {
                V::Format(e) => a(Action::FPrintf(f, e)),
                _ => unreachable!(),
            }
        }
        "-fprint0" => a(Action::FPrint0(s(next()))),
        "-fprint" => a(Action::FPrint(s(next()))),
        "-ls" => a(Action::Ls),
        "-print-file-fid" => a(Action::PrintFid),
        "-printf" => match next() {
            V::Format(e) => a(Action::Printf(e)),
            _ => unreachable!(),
        },
        "-print0" => a(Action::Print0),
        "-print" => a(Action::Print),
        "-prune" => a(Action::Prune),
        "-quit" => a(Action::Quit),
        "-depth" => Err(Global::Depth),
        "-maxdepth" | "-mindepth" | "-threads" => {
            let n = match next() {
                V::Plain(n) => n,
                _ => unreachable!(),
            };
            Err(match kw.word {
                "-maxdepth" => Global::MaxDepth(n),
                "-mindepth" => Global::MinDepth(n),
                _ => Global::Threads(n),
            })
        }
        other => unreachable!("vocabulary word {other} has no constructor"),
    }
}

/// A word in primary position, classified.
enum Lexed {
    Tok(Tok),
    Global(Global),
}

pub fn parse(input: &str) -> Spec {
    let items = match split(input) {
        Ok(i) => i,
        Err(r) => return Spec::Unspecified(r),
    };
    let mut lexed: Vec<Lexed> = vec![];
    let mut i = 0;
    // The first definite error is remembered but only returned once the rest of the input is
    // known not to contain an unspecified construct.
    let mut first_reject: Option<Reject> = None;
    let mut quoted_numeric = false;
    while i < items.len() {
        let item = &items[i];
        i += 1;
        let word = match item {
            Item::LParen => {
                lexed.push(Lexed::Tok(Tok::LParen));
                continue;
            }
            Item::RParen => {
                lexed.push(Lexed::Tok(Tok::RParen));
                continue;
            }
            Item::Quoted(_) => return Spec::Unspecified("quoted word in primary position"),
            Item::Bare(w) => w.as_str(),
        };
        match word {
            "!" => {
                lexed.push(Lexed::Tok(Tok::Not));
                continue;
            }
            "," => {
                lexed.push(Lexed::Tok(Tok::Comma));
                continue;
            }
            "-a" | "-and" => {
                lexed.push(Lexed::Tok(Tok::And));
                continue;
            }
            "-o" | "-or" => {
                lexed.push(Lexed::Tok(Tok::Or));
                continue;
            }
            "nope" => {
                // the subject's single positional-option word: a primary of its own kind
                lexed.push(Lexed::Tok(Tok::Prim(Expr::Positional)));
                continue;
            }
            _ => {}
        }
        if word.contains('!') || word.contains(',') {
            return Spec::Unspecified("'!' or ',' glued to a word in primary position");
        }
        let kw = match lookup(word) {
            Some(k) => k,
            None => {
                first_reject.get_or_insert(Reject::UnknownWord(word.to_string()));
                // cannot know how many following words would have been arguments: stop here
                break;
            }
        };
        let mut vals = vec![];
        let mut failed = false;
        for kind in kw.args {
            let arg = match items.get(i) {
                None => {
                    first_reject.get_or_insert(Reject::MissingArg(kw.word.to_string()));
                    failed = true;
                    break;
                }
                Some(Item::LParen) | Some(Item::RParen) => {
                    return Spec::Unspecified("parenthesis in argument position");
                }
                Some(Item::Bare(w)) => (w.as_str(), false),
                Some(Item::Quoted(w)) => (w.as_str(), true),
            };
            i += 1;
            // whether a quoted numeric / type-list argument is acceptable at all is left open, but
            // it can never denote anything else than its text: text outside the argument language
            // is an error, text inside it is either refused or read as written
            if arg.1 && !matches!(kind, K::Str | K::Perm | K::Format) {
                quoted_numeric = true;
            }
            match parse_arg(*kind, arg.0) {
                ArgRes::Ok(v) => vals.push(v),
                ArgRes::Bad => {
                    first_reject.get_or_insert(Reject::BadArg(kw.word.to_string(), arg.0.to_string()));
                    failed = true;
                    break;
                }
                ArgRes::Unspec(r) => return Spec::Unspecified(r),
            }
        }
        if failed {
            break;
        }
        match build(kw, vals) {
            Ok(t) => lexed.push(Lexed::Tok(t)),
            Err(g) => lexed.push(Lexed::Global(g)),
        }
    }
    if let Some(r) = first_reject {
        // the remainder of the input must still be free of layout the sources leave open, which
        // `split` has already established for the whole input
        return Spec::Reject(r);
    }
    // options: last occurrence wins, wherever it stands
    let mut opts = Opts::default();
    let mut may_reject = quoted_numeric;
    for l in &lexed {
        if let Lexed::Global(g) = l {
            match g {
                Global::Depth => opts.depth = true,
                Global::Threads(n) => opts.threads = Some(*n),
                Global::MaxDepth(n) => {
                    opts.max_depth = Some(*n);
                    may_reject = true;
                }
                Global::MinDepth(n) => {
                    opts.min_depth = Some(*n);
                    may_reject = true;
                }
            }
        }
    }
    // a leading run of options is removed; any other option behaves as -true
    let lead = lexed.iter().take_while(|l| matches!(l, Lexed::Global(_))).count();
    let toks: Vec<Tok> = lexed
        .into_iter()
        .skip(lead)
        .map(|l| match l {
            Lexed::Tok(t) => t,
            Lexed::Global(_) => Tok::Prim(Expr::Test(Test::True)),
        })
        .collect();
    if toks.is_empty() {
        // empty / blank / options-only input means -true
        return Spec::Accept { opts, tree: Expr::Test(Test::True), may_reject };
    }
    let _ = quoted_numeric;
    match grammar::parse(&toks) {
        Some(tree) => Spec::Accept { opts, tree, may_reject },
        None => {
            if may_reject {
                // with -maxdepth/-mindepth a rejection is acceptable anyway
                Spec::Reject(Reject::Grammar)
            } else {
                Spec::Reject(Reject::Grammar)
            }
        }
    }
}

#[cfg(test)]
mod tests {
    use super::*;

    fn acc(s: &str) -> (Opts, String) {
        match parse(s) {
            Spec::Accept { opts, tree, .. } => (opts, tree.show()),
            o => panic!("{s:?} -> {o:?}"),
        }
    }

    #[test]
    fn basics() {
        assert_eq!(acc("").1, "True");
        assert_eq!(acc("  \t\n").1, "True");
        assert_eq!(acc("-depth").0.depth, true);
        assert_eq!(acc("-true -a (-false -o -name test)").1, "(and True (or False Name(\"test\")))");
        assert_eq!(acc("-threads 4 -true -threads 7").0.threads, Some(7));
        assert_eq!(acc("-threads 4 -true -threads 7").1, "(and True True)");
        assert_eq!(acc("-name 'a b'").1, "Name(\"a b\")");
        assert_eq!(acc("-perm u+rwx,u-r").1, format!("Perm(Equal, {})", 0o300));
        assert_eq!(acc("-perm -644").1, format!("Perm(AtLeast, {})", 0o644));
        assert_eq!(acc("-size +5k").1, "Size(Gt, 5, Kilo)");
        assert_eq!(acc("-amin 5").1, "ATime(Eq, 5, Min)");
        assert_eq!(acc("-atime -5h").1, "ATime(Lt, 5, Hour)");
        assert!(matches!(parse("-true-false"), Spec::Reject(Reject::UnknownWord(_))));
        assert!(matches!(parse("-uid 4294967296"), Spec::Reject(Reject::BadArg(..))));
        assert!(matches!(parse("-size 36028797018963968"), Spec::Reject(Reject::BadArg(..))));
        assert!(matches!(parse("-name"), Spec::Reject(Reject::MissingArg(_))));
        assert!(matches!(parse("-true )"), Spec::Reject(Reject::Grammar)));
        assert!(matches!(parse("-a( -true )"), Spec::Unspecified(_)));
        assert!(matches!(parse("!-true"), Spec::Unspecified(_)));
    }

    #[test]
    fn formats() {
        let f = |s: &str| match format(s) {
            FmtRes::Ok(v) => format!("{:?}", normalise(&v)),
            FmtRes::Bad => "BAD".into(),
            FmtRes::Unspec(r) => format!("UNSPEC {r}"),
        };
        assert_eq!(f("a%pb"), "[Text(\"a\"), Field(Name), Text(\"b\")]");
        assert_eq!(f("\\0123"), "[Special(Ascii(10)), Text(\"3\")]");
        assert_eq!(f("\\0x"), "[Special(Null), Text(\"x\")]");
        assert_eq!(f("\\q"), "[Text(\"\\\\q\")]");
        assert_eq!(f("%z"), "BAD");
        assert_eq!(f("%"), "BAD");
        assert_eq!(f("%A@"), "[Field(AccessFmt('@'))]");
        assert!(f("%Aq").starts_with("UNSPEC"));
        assert_eq!(f("%{xattr:ab}x"), "[Field(XAttr(\"ab\")), Text(\"x\")]");
    }
}
