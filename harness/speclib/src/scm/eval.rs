//! Evaluator for policy programs plus a model of the `(lipe)` / `(lipe find)` procedures
//! (DESIGN.md section 3).  Effects (port writes, mutex operations) go through a `Host`, so the
//! same evaluator serves sequential runs, step recording and controlled-scheduler runs.
use super::reader::{read_all, Datum, Node};
use crate::record::{dirname, fnmatch, streq, Record};
use std::cell::RefCell;
use std::rc::Rc;

#[derive(Clone, Debug)]
pub enum Val {
    Int(i128),
    /// exact rational, normalised, denominator > 1
    Rat(i128, i128),
    Bool(bool),
    Str(Rc<str>),
    Char(char),
    Sym(Rc<str>),
    List(Rc<Vec<Val>>),
    Closure(Rc<Closure>),
    Prim(&'static str),
    Printer { port: usize, mutex: usize, term: Option<char> },
    Port(usize),
    Mutex(usize),
    Unspec,
    /// uninterpreted value (broken-down time, file type, option values…)
    Opaque(Rc<str>),
}

pub struct Closure {
    params: Vec<Rc<str>>,
    rest: Option<Rc<str>>,
    body: Rc<Vec<Node>>,
    env: Env,
}

impl std::fmt::Debug for Closure {
    fn fmt(&self, f: &mut std::fmt::Formatter) -> std::fmt::Result {
        write!(f, "#<procedure {:?}>", self.params)
    }
}

pub struct Frame {
    vars: RefCell<Vec<(Rc<str>, Val)>>,
    parent: Option<Env>,
}
pub type Env = Rc<Frame>;

fn lookup(env: &Env, name: &str) -> Option<Val> {
    let mut e = env;
    loop {
        if let Some((_, v)) = e.vars.borrow().iter().rev().find(|(n, _)| &**n == name) {
            return Some(v.clone());
        }
        match &e.parent {
            Some(p) => e = p,
            None => return None,
        }
    }
}

fn new_frame(env: &Env) -> Env {
    Rc::new(Frame { vars: RefCell::new(vec![]), parent: Some(env.clone()) })
}

impl<'h> Drop for Interp<'h> {
    /// Closures stored in a frame point back at it (reference cycles): every frame this
    /// interpreter created is emptied explicitly so the memory is returned.
    fn drop(&mut self) {
        self.captured = None;
        self.global.vars.borrow_mut().clear();
        for f in self.frames.drain(..) {
            f.vars.borrow_mut().clear();
        }
    }
}

#[derive(Debug, Clone, PartialEq)]
pub enum Ctl {
    /// run-time failure of the policy (unbound variable, wrong type, bad arity, …)
    Error(String),
    /// `(lipe-scan-break n)`: non-local exit from the per-file thunk
    Break,
}

type R = Result<Val, Ctl>;

fn err<T>(msg: impl Into<String>) -> Result<T, Ctl> {
    Err(Ctl::Error(msg.into()))
}

pub trait Host {
    fn write(&mut self, port: usize, text: &str);
    fn lock(&mut self, mutex: usize) -> Result<(), String>;
    fn unlock(&mut self, mutex: usize) -> Result<(), String>;
    fn open_file(&mut self, _port: usize, _name: &str, _mode: &str) {}
    fn close_port(&mut self, _port: usize) {}
    fn begin_record(&mut self, _index: usize) {}
    fn end_record(&mut self, _index: usize) {}
}

/// Sequential host: records every write in order; a second lock of a held mutex is a
/// self-deadlock and reported as an error.
#[derive(Default, Debug, Clone)]
pub struct SeqHost {
    /// (record index or usize::MAX outside a record, port, text, written while holding a mutex)
    pub writes: Vec<(usize, usize, String, bool)>,
    pub held: Vec<usize>,
    pub files: Vec<(usize, String, String)>,
    pub closed: Vec<usize>,
    pub cur: usize,
    /// writes performed while no mutex was held: (port, text)
    pub unguarded: Vec<(usize, String)>,
}

impl SeqHost {
    pub fn new() -> SeqHost {
        SeqHost { cur: usize::MAX, ..Default::default() }
    }
}

impl Host for SeqHost {
    fn write(&mut self, port: usize, text: &str) {
        if self.held.is_empty() {
            self.unguarded.push((port, text.to_string()));
        }
        self.writes.push((self.cur, port, text.to_string(), !self.held.is_empty()));
    }
    fn lock(&mut self, m: usize) -> Result<(), String> {
        if self.held.contains(&m) {
            return Err(format!("mutex {m} locked twice by the same thread (deadlock)"));
        }
        self.held.push(m);
        Ok(())
    }
    fn unlock(&mut self, m: usize) -> Result<(), String> {
        match self.held.iter().rposition(|x| *x == m) {
            Some(i) => {
                self.held.remove(i);
                Ok(())
            }
            None => Err(format!("mutex {m} unlocked but not held")),
        }
    }
    fn open_file(&mut self, port: usize, name: &str, mode: &str) {
        self.files.push((port, name.to_string(), mode.to_string()));
    }
    fn close_port(&mut self, port: usize) {
        self.closed.push(port);
    }
    fn begin_record(&mut self, i: usize) {
        self.cur = i;
    }
    fn end_record(&mut self, _i: usize) {
        self.cur = usize::MAX;
    }
}

#[derive(Clone, Debug, PartialEq)]
pub struct RecOutcome {
    /// truthiness of the thunk's value; None when the thunk was left by a scan break
    pub truth: Option<bool>,
    pub stopped: bool,
}

#[derive(Clone, Debug)]
pub struct ScanCall {
    pub device: Val,
    pub threads: Val,
    pub mount: Val,
    pub attrs: Val,
    pub outcomes: Vec<RecOutcome>,
}

pub struct Interp<'h> {
    pub host: &'h mut dyn Host,
    pub cur: Option<Record>,
    pub records: Vec<Record>,
    pub scans: Vec<ScanCall>,
    pub modules: Vec<String>,
    pub fuel: u64,
    next_port: usize,
    next_mutex: usize,
    /// when set, `lipe-scan` does not run the thunk but stores it here (step extraction / threads)
    pub capture_thunk: bool,
    pub captured: Option<Val>,
    /// keep feeding records to the thunk after a scan break (to observe every record)
    pub continue_after_break: bool,
    global: Env,
    frames: Vec<Env>,
}

pub const SPECIAL_FORMS: &[&str] = &[
    "quote", "use-modules", "if", "when", "unless", "and", "or", "begin", "lambda", "let*", "let", "letrec", "letrec*",
    "define", "with-mutex",
];
pub const LIPE_CORE: &[&str] = &[
    "uid", "gid", "ino", "nlink", "size", "blocks", "mode", "atime", "ctime", "mtime", "projid", "name", "user",
    "group", "type", "file-fid", "absolute-path", "relative-path", "lov-stripe-count", "lov-stripe-size",
    "lov-mirror-count", "lov-pools", "xattr-ref-string", "xattr?", "xattr-match?", "empty", "executable", "readable",
    "writable", "lipe-scan", "lipe-scan-break", "lipe-getopt-client-mount-path", "lipe-getopt-required-attrs",
    "lipe-getopt-thread-count", "lipe-scan-client-mount-path", "type->char",
];
pub const LIPE_FIND: &[&str] = &[
    "call-with-name", "call-with-relative-path", "call-with-absolute-path", "streq?", "streq-ci?", "fnmatch?",
    "fnmatch-ci?", "round-up-power-of-2", "print-relative-path", "print-file-fid", "make-printer",
];
pub const CORE: &[&str] = &[
    "=", "<", ">", "<=", ">=", "+", "-", "*", "/", "quotient", "remainder", "modulo", "logand", "logior", "lognot",
    "not", "eq?", "eqv?", "equal?", "string=?", "member", "string", "string-append", "number->string", "format",
    "display", "write-char", "newline", "make-mutex", "lock-mutex", "unlock-mutex", "current-output-port",
    "open-file", "open-output-file", "close-port", "dirname", "basename", "strftime", "localtime", "gmtime", "list",
    "cons", "car", "cdr", "null?", "zero?", "dynamic-wind", "string?", "number?", "min", "max", "abs", "1+", "1-",
    "force-output", "string-length", "values", "identity", "%probe",
];

impl<'h> Interp<'h> {
    pub fn new(host: &'h mut dyn Host) -> Interp<'h> {
        let global = Rc::new(Frame { vars: RefCell::new(vec![]), parent: None });
        {
            let mut v = global.vars.borrow_mut();
            for p in CORE {
                v.push((Rc::from(*p), Val::Prim(p)));
            }
        }
        Interp {
            host,
            cur: None,
            records: vec![],
            scans: vec![],
            modules: vec![],
            fuel: 2_000_000,
            next_port: 1,
            next_mutex: 0,
            capture_thunk: false,
            captured: None,
            continue_after_break: false,
            global,
            frames: vec![],
        }
    }

    pub fn global(&self) -> Env {
        self.global.clone()
    }

    fn child(&mut self, env: &Env) -> Env {
        let f = new_frame(env);
        self.frames.push(f.clone());
        f
    }

    /// Evaluate every top-level form of a program text.
    pub fn run(&mut self, src: &str) -> Result<Val, Ctl> {
        let forms = read_all(src).map_err(|e| Ctl::Error(e.to_string()))?;
        self.run_forms(&forms)
    }

    pub fn run_forms(&mut self, forms: &[Node]) -> Result<Val, Ctl> {
        let env = self.global.clone();
        let mut last = Val::Unspec;
        for f in forms {
            last = self.eval(f, &env)?;
        }
        Ok(last)
    }

    fn use_modules(&mut self, specs: &[Node]) -> R {
        for s in specs {
            let name = s.show();
            let list: &[&str] = match name.as_str() {
                "(lipe)" => LIPE_CORE,
                "(lipe find)" => LIPE_FIND,
                // any other module is taken to exist and to export nothing the model knows: a
                // procedure that is really missing still shows up as an unbound variable
                _ => &[],
            };
            let mut v = self.global.vars.borrow_mut();
            for p in list {
                v.push((Rc::from(*p), Val::Prim(p)));
            }
            drop(v);
            self.modules.push(name);
        }
        Ok(Val::Unspec)
    }

    fn tick(&mut self) -> Result<(), Ctl> {
        if self.fuel == 0 {
            return err("evaluation fuel exhausted (non-terminating policy?)");
        }
        self.fuel -= 1;
        Ok(())
    }

    pub fn eval(&mut self, n: &Node, env: &Env) -> R {
        self.tick()?;
        match &n.d {
            Datum::Num(s) => match s.parse::<i128>() {
                Ok(v) => Ok(Val::Int(v)),
                Err(_) => err(format!("integer literal {s} exceeds the model's 128-bit range")),
            },
            Datum::Str(s) => Ok(Val::Str(Rc::from(s.as_str()))),
            Datum::Char(c) => Ok(Val::Char(*c)),
            Datum::Bool(b) => Ok(Val::Bool(*b)),
            Datum::Sym(s) => match lookup(env, s) {
                Some(v) => Ok(v),
                None => err(format!("Unbound variable: {s}")),
            },
            Datum::List(items) => {
                if items.is_empty() {
                    return err("empty combination ()");
                }
                if let Some(head) = items[0].as_sym() {
                    // special forms, unless shadowed by a local binding
                    if lookup(env, head).is_none() {
                        if let Some(r) = self.special(head, items, env) {
                            return r;
                        }
                    }
                }
                let f = self.eval(&items[0], env)?;
                let mut args = Vec::with_capacity(items.len() - 1);
                for a in &items[1..] {
                    args.push(self.eval(a, env)?);
                }
                self.apply(&f, args)
            }
        }
    }

    fn body(&mut self, forms: &[Node], env: &Env) -> R {
        let mut last = Val::Unspec;
        for f in forms {
            last = self.eval(f, env)?;
        }
        Ok(last)
    }

    fn special(&mut self, head: &str, items: &[Node], env: &Env) -> Option<R> {
        Some(match head {
            "quote" => {
                if items.len() != 2 {
                    return Some(err("bad quote"));
                }
                Ok(quote(&items[1]))
            }
            "use-modules" => self.use_modules(&items[1..]),
            "if" => {
                if items.len() < 3 || items.len() > 4 {
                    return Some(err("bad if"));
                }
                match self.eval(&items[1], env) {
                    Err(e) => Err(e),
                    Ok(c) => {
                        if truthy(&c) {
                            self.eval(&items[2], env)
                        } else if items.len() == 4 {
                            self.eval(&items[3], env)
                        } else {
                            Ok(Val::Unspec)
                        }
                    }
                }
            }
            "when" | "unless" => {
                if items.len() < 2 {
                    return Some(err("bad when/unless"));
                }
                match self.eval(&items[1], env) {
                    Err(e) => Err(e),
                    Ok(c) => {
                        if truthy(&c) == (head == "when") {
                            self.body(&items[2..], env)
                        } else {
                            Ok(Val::Unspec)
                        }
                    }
                }
            }
            "and" => {
                let mut last = Val::Bool(true);
                for a in &items[1..] {
                    match self.eval(a, env) {
                        Err(e) => return Some(Err(e)),
                        Ok(v) => {
                            if !truthy(&v) {
                                return Some(Ok(v));
                            }
                            last = v;
                        }
                    }
                }
                Ok(last)
            }
            "or" => {
                for a in &items[1..] {
                    match self.eval(a, env) {
                        Err(e) => return Some(Err(e)),
                        Ok(v) => {
                            if truthy(&v) {
                                return Some(Ok(v));
                            }
                        }
                    }
                }
                Ok(Val::Bool(false))
            }
            "begin" => self.body(&items[1..], env),
            "lambda" => {
                if items.len() < 3 {
                    return Some(err("bad lambda"));
                }
                let (params, rest) = match &items[1].d {
                    Datum::List(ps) => {
                        let mut v = vec![];
                        for p in ps {
                            match p.as_sym() {
                                Some(s) => v.push(Rc::from(s)),
                                None => return Some(err("bad lambda parameter")),
                            }
                        }
                        let mut seen = v.clone();
                        seen.sort();
                        seen.dedup();
                        if seen.len() != v.len() {
                            return Some(err("duplicate lambda parameter"));
                        }
                        (v, None)
                    }
                    Datum::Sym(s) => (vec![], Some(Rc::from(s.as_str()))),
                    _ => return Some(err("bad lambda parameter list")),
                };
                Ok(Val::Closure(Rc::new(Closure {
                    params,
                    rest,
                    body: Rc::new(items[2..].to_vec()),
                    env: env.clone(),
                })))
            }
            "let*" | "let" | "letrec" | "letrec*" => {
                if items.len() < 2 {
                    return Some(err("bad let"));
                }
                let binds = match items[1].as_list() {
                    Some(b) => b,
                    None => return Some(err("bad let bindings")),
                };
                let new = self.child(env);
                let mut pending = vec![];
                for b in binds {
                    let pair = match b.as_list() {
                        Some(p) if p.len() == 2 => p,
                        _ => return Some(err(format!("bad binding {}", b.show()))),
                    };
                    let name = match pair[0].as_sym() {
                        Some(s) => s,
                        None => return Some(err("bad binding name")),
                    };
                    let scope = if head == "let" { env } else { &new };
                    let v = match self.eval(&pair[1], scope) {
                        Ok(v) => v,
                        Err(e) => return Some(Err(e)),
                    };
                    if head == "let" {
                        pending.push((Rc::from(name), v));
                    } else {
                        new.vars.borrow_mut().push((Rc::from(name), v));
                    }
                }
                new.vars.borrow_mut().extend(pending);
                self.body(&items[2..], &new)
            }
            "define" => {
                if items.len() < 3 {
                    return Some(err("bad define"));
                }
                match &items[1].d {
                    Datum::Sym(s) => match self.eval(&items[2], env) {
                        Ok(v) => {
                            env.vars.borrow_mut().push((Rc::from(s.as_str()), v));
                            Ok(Val::Unspec)
                        }
                        Err(e) => Err(e),
                    },
                    Datum::List(sig) if !sig.is_empty() => {
                        let name = match sig[0].as_sym() {
                            Some(s) => s,
                            None => return Some(err("bad define")),
                        };
                        let mut params = vec![];
                        for p in &sig[1..] {
                            match p.as_sym() {
                                Some(s) => params.push(Rc::from(s)),
                                None => return Some(err("bad define parameter")),
                            }
                        }
                        let c = Val::Closure(Rc::new(Closure {
                            params,
                            rest: None,
                            body: Rc::new(items[2..].to_vec()),
                            env: env.clone(),
                        }));
                        env.vars.borrow_mut().push((Rc::from(name), c));
                        Ok(Val::Unspec)
                    }
                    _ => err("bad define"),
                }
            }
            "with-mutex" => {
                if !self.modules.iter().any(|m| m == "(ice-9 threads)") {
                    // the macro lives in (ice-9 threads); without it this is an ordinary call
                    return None;
                }
                if items.len() < 2 {
                    return Some(err("bad with-mutex"));
                }
                let m = match self.eval(&items[1], env) {
                    Ok(Val::Mutex(m)) => m,
                    Ok(other) => return Some(err(format!("with-mutex: not a mutex: {}", display(&other)))),
                    Err(e) => return Some(Err(e)),
                };
                if let Err(e) = self.host.lock(m) {
                    return Some(err(e));
                }
                let r = self.body(&items[2..], env);
                if let Err(e) = self.host.unlock(m) {
                    return Some(err(e));
                }
                r
            }
            _ => return None,
        })
    }

    pub fn apply(&mut self, f: &Val, args: Vec<Val>) -> R {
        self.tick()?;
        match f {
            Val::Closure(c) => {
                let env = self.child(&c.env);
                if c.rest.is_none() && args.len() != c.params.len() {
                    return err(format!(
                        "Wrong number of arguments to procedure {:?}: got {}",
                        c.params,
                        args.len()
                    ));
                }
                if args.len() < c.params.len() {
                    return err("Wrong number of arguments");
                }
                {
                    let mut v = env.vars.borrow_mut();
                    let mut it = args.into_iter();
                    for p in &c.params {
                        v.push((p.clone(), it.next().unwrap()));
                    }
                    if let Some(r) = &c.rest {
                        v.push((r.clone(), Val::List(Rc::new(it.collect()))));
                    }
                }
                let body = c.body.clone();
                self.body(&body, &env)
            }
            Val::Prim(name) => self.prim(name, args),
            Val::Printer { port, mutex, term } => {
                if args.len() != 1 {
                    return err("Wrong number of arguments to printer");
                }
                self.host.lock(*mutex).map_err(Ctl::Error)?;
                self.host.write(*port, &display(&args[0]));
                if let Some(t) = term {
                    self.host.write(*port, &t.to_string());
                }
                self.host.unlock(*mutex).map_err(Ctl::Error)?;
                Ok(Val::Unspec)
            }
            other => err(format!("Wrong type to apply: {}", display(other))),
        }
    }

    fn rec(&self) -> Result<&Record, Ctl> {
        match &self.cur {
            Some(r) => Ok(r),
            None => err("file attribute accessed outside of a scan"),
        }
    }

    /// Run the policy thunk on one record, catching a scan break.
    pub fn run_thunk(&mut self, thunk: &Val, index: usize, rec: Record) -> Result<RecOutcome, Ctl> {
        // the step budget guards against a non-terminating policy: it is per file record
        self.fuel = self.fuel.max(2_000_000);
        self.cur = Some(rec);
        self.host.begin_record(index);
        let r = self.apply(thunk, vec![]);
        self.host.end_record(index);
        self.cur = None;
        match r {
            Ok(v) => Ok(RecOutcome { truth: Some(truthy(&v)), stopped: false }),
            Err(Ctl::Break) => Ok(RecOutcome { truth: None, stopped: true }),
            Err(e) => Err(e),
        }
    }

    fn prim(&mut self, name: &'static str, a: Vec<Val>) -> R {
        let argc = |n: usize| -> Result<(), Ctl> {
            if a.len() != n {
                err(format!("Wrong number of arguments to {name}: expected {n}, got {}", a.len()))
            } else {
                Ok(())
            }
        };
        let int = |i: usize| -> Result<i128, Ctl> {
            match a.get(i) {
                Some(Val::Int(v)) => Ok(*v),
                Some(o) => err(format!("{name}: Wrong type argument in position {}: {}", i + 1, display(o))),
                None => err(format!("{name}: missing argument {}", i + 1)),
            }
        };
        let string = |i: usize| -> Result<Rc<str>, Ctl> {
            match a.get(i) {
                Some(Val::Str(s)) => Ok(s.clone()),
                Some(o) => err(format!("{name}: Wrong type argument in position {} (expecting string): {}", i + 1, display(o))),
                None => err(format!("{name}: missing argument {}", i + 1)),
            }
        };
        let num = |v: u64| Ok(Val::Int(v as i128));
        match name {
            // ---- file attributes -------------------------------------------------------
            "uid" => { argc(0)?; num(self.rec()?.uid) }
            "gid" => { argc(0)?; num(self.rec()?.gid) }
            "ino" => { argc(0)?; num(self.rec()?.ino) }
            "nlink" => { argc(0)?; num(self.rec()?.nlink) }
            "size" => { argc(0)?; num(self.rec()?.size) }
            "blocks" => { argc(0)?; num(self.rec()?.blocks) }
            "mode" => { argc(0)?; num(self.rec()?.mode as u64) }
            "atime" => { argc(0)?; num(self.rec()?.atime) }
            "ctime" => { argc(0)?; num(self.rec()?.ctime) }
            "mtime" => { argc(0)?; num(self.rec()?.mtime) }
            "projid" => { argc(0)?; num(self.rec()?.projid) }
            "lov-stripe-count" => { argc(0)?; num(self.rec()?.stripe_count) }
            "lov-stripe-size" => { argc(0)?; num(self.rec()?.stripe_size) }
            "lov-mirror-count" => { argc(0)?; num(self.rec()?.mirror_count) }
            "name" => { argc(0)?; Ok(Val::Str(Rc::from(self.rec()?.name.as_str()))) }
            "user" => { argc(0)?; Ok(Val::Str(Rc::from(self.rec()?.user.as_str()))) }
            "group" => { argc(0)?; Ok(Val::Str(Rc::from(self.rec()?.group.as_str()))) }
            "file-fid" => { argc(0)?; Ok(Val::Str(Rc::from(self.rec()?.fid.as_str()))) }
            "absolute-path" => { argc(0)?; Ok(Val::Str(Rc::from(self.rec()?.abs_path.as_str()))) }
            "relative-path" => { argc(0)?; Ok(Val::Str(Rc::from(self.rec()?.rel_path.as_str()))) }
            "lipe-scan-client-mount-path" => { argc(0)?; Ok(Val::Str(Rc::from(self.rec()?.mount.as_str()))) }
            "type" => { argc(0)?; Ok(Val::Opaque(Rc::from(format!("type:{}", self.rec()?.type_char()).as_str()))) }
            "type->char" => {
                argc(1)?;
                match &a[0] {
                    Val::Opaque(s) if s.starts_with("type:") => Ok(Val::Char(s.chars().last().unwrap())),
                    o => err(format!("type->char: not a file type: {}", display(o))),
                }
            }
            "lov-pools" => {
                argc(0)?;
                Ok(Val::List(Rc::new(self.rec()?.pools.iter().map(|p| Val::Str(Rc::from(p.as_str()))).collect())))
            }
            "empty" => { argc(0)?; Ok(Val::Bool(self.rec()?.empty)) }
            "executable" => { argc(0)?; Ok(Val::Bool(self.rec()?.executable)) }
            "readable" => { argc(0)?; Ok(Val::Bool(self.rec()?.readable)) }
            "writable" => { argc(0)?; Ok(Val::Bool(self.rec()?.writable)) }
            "xattr-ref-string" => {
                argc(1)?;
                let n = string(0)?;
                Ok(match self.rec()?.xattr(&n) {
                    Some(v) => Val::Str(Rc::from(v)),
                    None => Val::Bool(false),
                })
            }
            "xattr?" => {
                argc(1)?;
                let n = string(0)?;
                Ok(Val::Bool(self.rec()?.xattr(&n).is_some()))
            }
            "xattr-match?" => {
                argc(2)?;
                let (n, v) = (string(0)?, string(1)?);
                Ok(Val::Bool(self.rec()?.xattrs.iter().any(|(xn, xv)| fnmatch(&n, xn, false) && fnmatch(&v, xv, false))))
            }
            // ---- (lipe find) helpers ---------------------------------------------------
            "call-with-name" | "call-with-relative-path" | "call-with-absolute-path" => {
                argc(1)?;
                let r = self.rec()?;
                let s = match name {
                    "call-with-name" => r.name.clone(),
                    "call-with-relative-path" => r.rel_path.clone(),
                    _ => r.abs_path.clone(),
                };
                let f = a[0].clone();
                self.apply(&f, vec![Val::Str(Rc::from(s.as_str()))])
            }
            "streq?" | "streq-ci?" | "fnmatch?" | "fnmatch-ci?" => {
                argc(2)?;
                let (p, s) = (string(0)?, string(1)?);
                Ok(Val::Bool(match name {
                    "streq?" => streq(&p, &s, false),
                    "streq-ci?" => streq(&p, &s, true),
                    "fnmatch?" => fnmatch(&p, &s, false),
                    _ => fnmatch(&p, &s, true),
                }))
            }
            "round-up-power-of-2" => {
                argc(2)?;
                let (x, m) = (int(0)?, int(1)?);
                if m <= 0 {
                    return err("round-up-power-of-2: bad modulus");
                }
                Ok(Val::Int((x + m - 1) / m * m))
            }
            "print-relative-path" => {
                argc(0)?;
                let s = format!("{}\n", self.rec()?.rel_path);
                self.host.write(0, &s);
                Ok(Val::Unspec)
            }
            "print-file-fid" => {
                argc(0)?;
                let s = format!("{}\n", self.rec()?.fid);
                self.host.write(0, &s);
                Ok(Val::Unspec)
            }
            "make-printer" => {
                argc(3)?;
                let port = match &a[0] {
                    Val::Port(p) => *p,
                    o => return err(format!("make-printer: not a port: {}", display(o))),
                };
                let mutex = match &a[1] {
                    Val::Mutex(m) => *m,
                    o => return err(format!("make-printer: not a mutex: {}", display(o))),
                };
                let term = match &a[2] {
                    Val::Bool(false) => None,
                    Val::Char(c) => Some(*c),
                    o => return err(format!("make-printer: bad terminator: {}", display(o))),
                };
                Ok(Val::Printer { port, mutex, term })
            }
            "lipe-getopt-client-mount-path" => { argc(0)?; Ok(Val::Opaque(Rc::from("client-mount-path"))) }
            "lipe-getopt-required-attrs" => { argc(0)?; Ok(Val::Opaque(Rc::from("required-attrs"))) }
            "lipe-getopt-thread-count" => { argc(0)?; Ok(Val::Opaque(Rc::from("default-thread-count"))) }
            "lipe-scan-break" => {
                argc(1)?;
                // the argument is the scan's completion status; -quit ends the scan normally (0)
                let status = int(0)?;
                if status != 0 {
                    return err(format!("lipe-scan-break: status {status} (find's -quit completes normally: status 0)"));
                }
                Err(Ctl::Break)
            }
            "lipe-scan" => {
                argc(5)?;
                match &a[0] {
                    Val::Str(_) => {}
                    o => return err(format!("lipe-scan: device is not a string: {}", display(o))),
                }
                match &a[4] {
                    Val::Int(n) if *n >= 1 => {}
                    Val::Opaque(s) if &**s == "default-thread-count" => {}
                    o => return err(format!("lipe-scan: bad thread count: {}", display(o))),
                }
                let thunk = a[2].clone();
                if !matches!(thunk, Val::Closure(_) | Val::Prim(_)) {
                    return err("lipe-scan: policy is not a procedure");
                }
                let mut call = ScanCall {
                    device: a[0].clone(),
                    mount: a[1].clone(),
                    attrs: a[3].clone(),
                    threads: a[4].clone(),
                    outcomes: vec![],
                };
                if self.capture_thunk {
                    self.captured = Some(thunk);
                    self.scans.push(call);
                    return Ok(Val::Unspec);
                }
                let recs = self.records.clone();
                for (i, r) in recs.into_iter().enumerate() {
                    let o = self.run_thunk(&thunk, i, r)?;
                    let stop = o.stopped;
                    call.outcomes.push(o);
                    if stop && !self.continue_after_break {
                        break;
                    }
                }
                self.scans.push(call);
                Ok(Val::Unspec)
            }
            // ---- core ------------------------------------------------------------------
            "=" | "<" | ">" | "<=" | ">=" => {
                if a.is_empty() {
                    return err(format!("{name}: no arguments"));
                }
                let mut ok = true;
                for w in a.windows(2) {
                    let (x, y) = (to_rat(&w[0], name)?, to_rat(&w[1], name)?);
                    // compare x.0/x.1 with y.0/y.1 (denominators positive)
                    let (l, r) = (x.0 * y.1, y.0 * x.1);
                    ok &= match name {
                        "=" => l == r,
                        "<" => l < r,
                        ">" => l > r,
                        "<=" => l <= r,
                        _ => l >= r,
                    };
                }
                if a.len() == 1 {
                    to_rat(&a[0], name)?;
                }
                Ok(Val::Bool(ok))
            }
            "+" | "*" => {
                let mut acc = if name == "+" { (0, 1) } else { (1, 1) };
                for v in &a {
                    let x = to_rat(v, name)?;
                    acc = if name == "+" { (acc.0 * x.1 + x.0 * acc.1, acc.1 * x.1) } else { (acc.0 * x.0, acc.1 * x.1) };
                    acc = norm(acc);
                }
                Ok(from_rat(acc))
            }
            "-" => {
                if a.is_empty() {
                    return err("-: no arguments");
                }
                let first = to_rat(&a[0], name)?;
                if a.len() == 1 {
                    return Ok(from_rat((-first.0, first.1)));
                }
                let mut acc = first;
                for v in &a[1..] {
                    let x = to_rat(v, name)?;
                    acc = norm((acc.0 * x.1 - x.0 * acc.1, acc.1 * x.1));
                }
                Ok(from_rat(acc))
            }
            "/" => {
                if a.is_empty() {
                    return err("/: no arguments");
                }
                let first = to_rat(&a[0], name)?;
                let mut acc = first;
                let rest: &[Val] = if a.len() == 1 {
                    acc = (1, 1);
                    &a[..]
                } else {
                    &a[1..]
                };
                for v in rest {
                    let x = to_rat(v, name)?;
                    if x.0 == 0 {
                        return err("Numerical overflow: division by zero");
                    }
                    acc = norm((acc.0 * x.1, acc.1 * x.0));
                }
                Ok(from_rat(acc))
            }
            "quotient" | "remainder" | "modulo" => {
                argc(2)?;
                let (x, y) = (int(0)?, int(1)?);
                if y == 0 {
                    return err(format!("{name}: division by zero"));
                }
                Ok(Val::Int(match name {
                    "quotient" => x / y,
                    "remainder" => x % y,
                    _ => x.rem_euclid(y) * if y < 0 { -1 } else { 1 },
                }))
            }
            "logand" => {
                let mut acc: i128 = -1;
                for i in 0..a.len() {
                    acc &= int(i)?;
                }
                Ok(Val::Int(acc))
            }
            "logior" => {
                let mut acc: i128 = 0;
                for i in 0..a.len() {
                    acc |= int(i)?;
                }
                Ok(Val::Int(acc))
            }
            "lognot" => { argc(1)?; Ok(Val::Int(!int(0)?)) }
            "min" | "max" => {
                if a.is_empty() {
                    return err("min/max: no arguments");
                }
                let mut best = int(0)?;
                for i in 1..a.len() {
                    let v = int(i)?;
                    best = if name == "min" { best.min(v) } else { best.max(v) };
                }
                Ok(Val::Int(best))
            }
            "abs" => { argc(1)?; Ok(Val::Int(int(0)?.abs())) }
            "1+" => { argc(1)?; Ok(Val::Int(int(0)? + 1)) }
            "1-" => { argc(1)?; Ok(Val::Int(int(0)? - 1)) }
            "zero?" => { argc(1)?; Ok(Val::Bool(to_rat(&a[0], name)?.0 == 0)) }
            "not" => { argc(1)?; Ok(Val::Bool(!truthy(&a[0]))) }
            "identity" => { argc(1)?; Ok(a[0].clone()) }
            "%probe" => {
                // harness-only: report (index, truthiness) of a value without short-circuiting
                argc(2)?;
                let t = if truthy(&a[1]) { "T" } else { "F" };
                self.host.write(9999, &format!("{}:{t}", int(0)?));
                Ok(a[1].clone())
            }
            "values" => { argc(1)?; Ok(a[0].clone()) }
            "eq?" | "eqv?" | "equal?" => { argc(2)?; Ok(Val::Bool(equal(&a[0], &a[1]))) }
            "string=?" => { argc(2)?; Ok(Val::Bool(string(0)? == string(1)?)) }
            "string?" => { argc(1)?; Ok(Val::Bool(matches!(a[0], Val::Str(_)))) }
            "number?" => { argc(1)?; Ok(Val::Bool(matches!(a[0], Val::Int(_) | Val::Rat(..)))) }
            "string-length" => { argc(1)?; Ok(Val::Int(string(0)?.chars().count() as i128)) }
            "member" => {
                argc(2)?;
                match &a[1] {
                    Val::List(l) => Ok(match l.iter().position(|x| equal(x, &a[0])) {
                        Some(i) => Val::List(Rc::new(l[i..].to_vec())),
                        None => Val::Bool(false),
                    }),
                    o => err(format!("member: not a list: {}", display(o))),
                }
            }
            "list" => Ok(Val::List(Rc::new(a))),
            "cons" => {
                argc(2)?;
                match &a[1] {
                    Val::List(l) => {
                        let mut v = vec![a[0].clone()];
                        v.extend(l.iter().cloned());
                        Ok(Val::List(Rc::new(v)))
                    }
                    _ => err("cons: improper lists are not modelled"),
                }
            }
            "car" => {
                argc(1)?;
                match &a[0] {
                    Val::List(l) if !l.is_empty() => Ok(l[0].clone()),
                    o => err(format!("car: not a pair: {}", display(o))),
                }
            }
            "cdr" => {
                argc(1)?;
                match &a[0] {
                    Val::List(l) if !l.is_empty() => Ok(Val::List(Rc::new(l[1..].to_vec()))),
                    o => err(format!("cdr: not a pair: {}", display(o))),
                }
            }
            "null?" => { argc(1)?; Ok(Val::Bool(matches!(&a[0], Val::List(l) if l.is_empty()))) }
            "string" => {
                let mut s = String::new();
                for v in &a {
                    match v {
                        Val::Char(c) => s.push(*c),
                        o => return err(format!("string: not a character: {}", display(o))),
                    }
                }
                Ok(Val::Str(Rc::from(s.as_str())))
            }
            "string-append" => {
                let mut s = String::new();
                for i in 0..a.len() {
                    s.push_str(&string(i)?);
                }
                Ok(Val::Str(Rc::from(s.as_str())))
            }
            "number->string" => {
                if a.is_empty() || a.len() > 2 {
                    return err("number->string: bad arity");
                }
                let radix = if a.len() == 2 { int(1)? } else { 10 };
                let v = int(0)?;
                Ok(Val::Str(Rc::from(radix_str(v, radix as u32)?.as_str())))
            }
            "format" => {
                if a.len() < 2 {
                    return err("format: too few arguments");
                }
                let tmpl = string(1)?;
                let out = format_directives(&tmpl, &a[2..])?;
                match &a[0] {
                    Val::Bool(false) => Ok(Val::Str(Rc::from(out.as_str()))),
                    Val::Bool(true) => {
                        self.host.write(0, &out);
                        Ok(Val::Unspec)
                    }
                    Val::Port(p) => {
                        self.host.write(*p, &out);
                        Ok(Val::Unspec)
                    }
                    o => err(format!("format: bad destination {}", display(o))),
                }
            }
            "display" | "write-char" | "newline" => {
                let (text, port_arg) = match name {
                    "newline" => {
                        if a.len() > 1 {
                            return err("newline: bad arity");
                        }
                        ("\n".to_string(), a.first())
                    }
                    "write-char" => {
                        if a.is_empty() || a.len() > 2 {
                            return err("write-char: bad arity");
                        }
                        match &a[0] {
                            Val::Char(c) => (c.to_string(), a.get(1)),
                            o => return err(format!("write-char: not a character: {}", display(o))),
                        }
                    }
                    _ => {
                        if a.is_empty() || a.len() > 2 {
                            return err("display: bad arity");
                        }
                        (display(&a[0]), a.get(1))
                    }
                };
                let port = match port_arg {
                    None => 0,
                    Some(Val::Port(p)) => *p,
                    Some(o) => return err(format!("{name}: not a port: {}", display(o))),
                };
                self.host.write(port, &text);
                Ok(Val::Unspec)
            }
            "force-output" => Ok(Val::Unspec),
            "current-output-port" => { argc(0)?; Ok(Val::Port(0)) }
            "open-file" | "open-output-file" => {
                let mode = if name == "open-file" {
                    argc(2)?;
                    string(1)?
                } else {
                    argc(1)?;
                    Rc::from("w")
                };
                let fname = string(0)?;
                if fname.is_empty() {
                    return err("open-file: empty file name");
                }
                if !mode.starts_with('w') && !mode.starts_with('a') {
                    return err(format!("open-file: port opened with mode {mode:?} is not writable"));
                }
                let p = self.next_port;
                self.next_port += 1;
                self.host.open_file(p, &fname, &mode);
                Ok(Val::Port(p))
            }
            "close-port" => {
                argc(1)?;
                match &a[0] {
                    Val::Port(p) => {
                        self.host.close_port(*p);
                        Ok(Val::Unspec)
                    }
                    o => err(format!("close-port: not a port: {}", display(o))),
                }
            }
            "make-mutex" => {
                if a.len() > 1 {
                    return err("make-mutex: bad arity");
                }
                let m = self.next_mutex;
                self.next_mutex += 1;
                Ok(Val::Mutex(m))
            }
            "lock-mutex" | "unlock-mutex" => {
                argc(1)?;
                match &a[0] {
                    Val::Mutex(m) => {
                        if name == "lock-mutex" {
                            self.host.lock(*m).map_err(Ctl::Error)?;
                        } else {
                            self.host.unlock(*m).map_err(Ctl::Error)?;
                        }
                        Ok(Val::Unspec)
                    }
                    o => err(format!("{name}: not a mutex: {}", display(o))),
                }
            }
            "dirname" => { argc(1)?; Ok(Val::Str(Rc::from(dirname(&string(0)?).as_str()))) }
            "basename" => {
                argc(1)?;
                let s = string(0)?;
                let t = s.trim_end_matches('/');
                Ok(Val::Str(Rc::from(t.rsplit('/').next().unwrap_or(""))))
            }
            "localtime" | "gmtime" => {
                argc(1)?;
                Ok(Val::Opaque(Rc::from(format!("{name}({})", int(0)?).as_str())))
            }
            "strftime" => {
                argc(2)?;
                let f = string(0)?;
                match &a[1] {
                    Val::Opaque(t) if t.starts_with("localtime(") || t.starts_with("gmtime(") => {
                        Ok(Val::Str(Rc::from(format!("strftime({f},{t})").as_str())))
                    }
                    o => err(format!("strftime: not a broken-down time: {}", display(o))),
                }
            }
            "dynamic-wind" => {
                argc(3)?;
                self.apply(&a[0].clone(), vec![])?;
                let r = self.apply(&a[1].clone(), vec![]);
                self.apply(&a[2].clone(), vec![])?;
                r
            }
            other => err(format!("primitive {other} is not modelled")),
        }
    }
}

fn quote(n: &Node) -> Val {
    match &n.d {
        Datum::List(v) => Val::List(Rc::new(v.iter().map(quote).collect())),
        Datum::Sym(s) => Val::Sym(Rc::from(s.as_str())),
        Datum::Num(s) => s.parse::<i128>().map(Val::Int).unwrap_or(Val::Opaque(Rc::from(s.as_str()))),
        Datum::Str(s) => Val::Str(Rc::from(s.as_str())),
        Datum::Char(c) => Val::Char(*c),
        Datum::Bool(b) => Val::Bool(*b),
    }
}

/// The value a name has in the environment a closure was created in.
pub fn closure_lookup(closure: &Val, name: &str) -> Option<Val> {
    match closure {
        Val::Closure(c) => lookup(&c.env, name),
        _ => None,
    }
}

pub fn truthy(v: &Val) -> bool {
    !matches!(v, Val::Bool(false))
}

fn gcd(a: i128, b: i128) -> i128 {
    if b == 0 {
        a.abs()
    } else {
        gcd(b, a % b)
    }
}

fn norm(r: (i128, i128)) -> (i128, i128) {
    let g = gcd(r.0, r.1).max(1);
    let s = if r.1 < 0 { -1 } else { 1 };
    (s * r.0 / g, s * r.1 / g)
}

fn to_rat(v: &Val, who: &str) -> Result<(i128, i128), Ctl> {
    match v {
        Val::Int(i) => Ok((*i, 1)),
        Val::Rat(n, d) => Ok((*n, *d)),
        o => err(format!("{who}: Wrong type argument (expecting number): {}", display(o))),
    }
}

fn from_rat(r: (i128, i128)) -> Val {
    let r = norm(r);
    if r.1 == 1 {
        Val::Int(r.0)
    } else {
        Val::Rat(r.0, r.1)
    }
}

fn radix_str(v: i128, radix: u32) -> Result<String, Ctl> {
    if !(2..=36).contains(&radix) {
        return err("bad radix");
    }
    let neg = v < 0;
    let mut n = v.unsigned_abs();
    if n == 0 {
        return Ok("0".into());
    }
    let mut s = vec![];
    while n > 0 {
        s.push(std::char::from_digit((n % radix as u128) as u32, radix).unwrap());
        n /= radix as u128;
    }
    if neg {
        s.push('-');
    }
    Ok(s.iter().rev().collect())
}

pub fn equal(a: &Val, b: &Val) -> bool {
    match (a, b) {
        (Val::Int(x), Val::Int(y)) => x == y,
        (Val::Rat(a1, a2), Val::Rat(b1, b2)) => a1 == b1 && a2 == b2,
        (Val::Bool(x), Val::Bool(y)) => x == y,
        (Val::Str(x), Val::Str(y)) => x == y,
        (Val::Char(x), Val::Char(y)) => x == y,
        (Val::Sym(x), Val::Sym(y)) => x == y,
        (Val::List(x), Val::List(y)) => x.len() == y.len() && x.iter().zip(y.iter()).all(|(p, q)| equal(p, q)),
        (Val::Port(x), Val::Port(y)) => x == y,
        (Val::Mutex(x), Val::Mutex(y)) => x == y,
        (Val::Opaque(x), Val::Opaque(y)) => x == y,
        (Val::Unspec, Val::Unspec) => true,
        _ => false,
    }
}

/// `display` rendering.
pub fn display(v: &Val) -> String {
    match v {
        Val::Int(i) => i.to_string(),
        Val::Rat(n, d) => format!("{n}/{d}"),
        Val::Bool(true) => "#t".into(),
        Val::Bool(false) => "#f".into(),
        Val::Str(s) => s.to_string(),
        Val::Char(c) => c.to_string(),
        Val::Sym(s) => s.to_string(),
        Val::List(l) => format!("({})", l.iter().map(display).collect::<Vec<_>>().join(" ")),
        Val::Closure(_) => "#<procedure>".into(),
        Val::Prim(p) => format!("#<procedure {p}>"),
        Val::Printer { port, .. } => format!("#<procedure printer port {port}>"),
        Val::Port(p) => format!("#<port {p}>"),
        Val::Mutex(m) => format!("#<mutex {m}>"),
        Val::Unspec => "#<unspecified>".into(),
        Val::Opaque(s) => format!("#<{s}>"),
    }
}

/// `write` rendering of strings/chars (for ~s).
fn write_repr(v: &Val) -> String {
    match v {
        Val::Str(s) => format!("{:?}", &**s),
        Val::Char(c) => format!("#\\{c}"),
        o => display(o),
    }
}

/// The directives of (ice-9 format) that policies use: ~a ~s ~d ~o ~x ~f ~~ ~%.  Anything else
/// is an error, as are missing or surplus arguments.
pub fn format_directives(tmpl: &str, args: &[Val]) -> Result<String, Ctl> {
    let mut out = String::new();
    let mut it = tmpl.chars();
    let mut next = 0usize;
    let mut take = |what: char| -> Result<&Val, Ctl> {
        let v = args.get(next).ok_or_else(|| Ctl::Error(format!("FORMAT: missing argument for ~{what}")))?;
        next += 1;
        Ok(v)
    };
    while let Some(c) = it.next() {
        if c != '~' {
            out.push(c);
            continue;
        }
        let d = match it.next() {
            Some(d) => d,
            None => return err("FORMAT: string ended before directive was found"),
        };
        match d {
            '~' => out.push('~'),
            '%' => out.push('\n'),
            'a' | 'A' => out.push_str(&display(take('a')?)),
            's' | 'S' => out.push_str(&write_repr(take('s')?)),
            'd' | 'D' => {
                let v = take('d')?;
                out.push_str(&display(v))
            }
            'o' | 'O' | 'x' | 'X' => {
                let v = take(d)?;
                match v {
                    Val::Int(i) => out.push_str(&radix_str(*i, if d == 'o' || d == 'O' { 8 } else { 16 })?),
                    o => out.push_str(&display(o)),
                }
            }
            'f' | 'F' => {
                let v = take('f')?;
                match v {
                    Val::Int(i) => out.push_str(&format!("f({i}/1)")),
                    Val::Rat(n, d) => out.push_str(&format!("f({n}/{d})")),
                    o => return err(format!("FORMAT: ~f argument is not a number: {}", display(o))),
                }
            }
            other => return err(format!("FORMAT: unsupported format directive ~{other}")),
        }
    }
    if next != args.len() {
        return err(format!("FORMAT: {} superfluous arguments", args.len() - next));
    }
    Ok(out)
}

#[cfg(test)]
mod tests {
    use super::*;
    #[test]
    fn runs_plain_policy() {
        let src = r#"(use-modules (lipe) (lipe find))

(let* ((%lf3:port:0 (current-output-port)) (%lf3:mutex:1 (make-mutex)) (%lf3:print:2 (make-printer %lf3:port:0 %lf3:mutex:1 #\x0a)))
  (dynamic-wind
    (lambda () #t)
    (lambda () (lipe-scan
        "/"
        (lipe-getopt-client-mount-path)
        (lambda () (and (> (uid) 5) (call-with-relative-path %lf3:print:2)))
        (lipe-getopt-required-attrs)
        (lipe-getopt-thread-count)))
    (lambda () #t)))"#;
        let mut h = SeqHost::new();
        let mut it = Interp::new(&mut h);
        it.records = vec![Record::distinct(1_000_000), Record::zero()];
        it.run(src).unwrap();
        assert_eq!(it.scans.len(), 1);
        assert_eq!(it.scans[0].outcomes[0].truth, Some(true));
        assert_eq!(it.scans[0].outcomes[1].truth, Some(false));
        drop(it);
        let text: String = h.writes.iter().map(|w| w.2.clone()).collect();
        assert_eq!(text, "dir/sub/file.txt\n");
    }

    #[test]
    fn framed_policy_needs_threads_module() {
        let src = r#"(use-modules (lipe) (lipe find))
(let* ((p (current-output-port)) (m (make-mutex)) (f (lambda (s d) (with-mutex m (display s p) (display (string #\x1e d) p)))))
  (f "x" #\x02))"#;
        let mut h = SeqHost::new();
        let mut it = Interp::new(&mut h);
        assert!(it.run(src).is_err());
        let src2 = src.replace("(lipe find))", "(lipe find) (ice-9 threads))");
        let mut h = SeqHost::new();
        let mut it = Interp::new(&mut h);
        it.run(&src2).unwrap();
        drop(it);
        let text: String = h.writes.iter().map(|w| w.2.clone()).collect();
        assert_eq!(text, "x\u{1e}\u{2}");
    }
}
