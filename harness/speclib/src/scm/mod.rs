pub mod eval;
pub mod reader;
