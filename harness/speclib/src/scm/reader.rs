//! A reader for the subset of Guile's lexical syntax that policy programs can contain, written
//! from the Guile reference manual ("Scheme Syntax", "String Syntax", "Characters").  Any
//! backslash escape inside a string literal that Guile does not define is a *read error*, as in
//! Guile.  Datums carry byte spans of the source so literals can be located.
use std::fmt;

#[derive(Clone, Debug, PartialEq)]
pub enum Datum {
    List(Vec<Node>),
    Sym(String),
    /// exact integer, decimal digits with optional leading '-', arbitrary size
    Num(String),
    Str(String),
    Char(char),
    Bool(bool),
}

#[derive(Clone, Debug, PartialEq)]
pub struct Node {
    pub d: Datum,
    pub start: usize,
    pub end: usize,
}

#[derive(Clone, Debug, PartialEq)]
pub struct ReadError {
    pub pos: usize,
    pub msg: String,
}

impl fmt::Display for ReadError {
    fn fmt(&self, f: &mut fmt::Formatter) -> fmt::Result {
        write!(f, "read error at byte {}: {}", self.pos, self.msg)
    }
}

pub fn read_all(src: &str) -> Result<Vec<Node>, ReadError> {
    let mut r = R { s: src.as_bytes(), src, i: 0 };
    let mut out = vec![];
    loop {
        r.skip_ws()?;
        if r.i >= r.s.len() {
            return Ok(out);
        }
        out.push(r.datum()?);
    }
}

struct R<'a> {
    s: &'a [u8],
    src: &'a str,
    i: usize,
}

fn is_delim(b: u8) -> bool {
    b.is_ascii_whitespace() || matches!(b, b'(' | b')' | b'[' | b']' | b'"' | b';')
}

impl<'a> R<'a> {
    fn err<T>(&self, pos: usize, msg: impl Into<String>) -> Result<T, ReadError> {
        Err(ReadError { pos, msg: msg.into() })
    }

    fn skip_ws(&mut self) -> Result<(), ReadError> {
        loop {
            while self.i < self.s.len() && self.s[self.i].is_ascii_whitespace() {
                self.i += 1;
            }
            if self.i >= self.s.len() {
                return Ok(());
            }
            match self.s[self.i] {
                b';' => {
                    while self.i < self.s.len() && self.s[self.i] != b'\n' {
                        self.i += 1;
                    }
                }
                b'#' if self.s.get(self.i + 1) == Some(&b'|') => {
                    let start = self.i;
                    let mut depth = 1;
                    self.i += 2;
                    while depth > 0 {
                        if self.i + 1 >= self.s.len() {
                            return self.err(start, "unterminated block comment");
                        }
                        if self.s[self.i] == b'|' && self.s[self.i + 1] == b'#' {
                            depth -= 1;
                            self.i += 2;
                        } else if self.s[self.i] == b'#' && self.s[self.i + 1] == b'|' {
                            depth += 1;
                            self.i += 2;
                        } else {
                            self.i += 1;
                        }
                    }
                }
                b'#' if self.s.get(self.i + 1) == Some(&b';') => {
                    self.i += 2;
                    self.skip_ws()?;
                    if self.i >= self.s.len() {
                        return self.err(self.i, "datum comment at end of input");
                    }
                    self.datum()?;
                }
                _ => return Ok(()),
            }
        }
    }

    fn datum(&mut self) -> Result<Node, ReadError> {
        self.skip_ws()?;
        let start = self.i;
        if self.i >= self.s.len() {
            return self.err(start, "unexpected end of input");
        }
        let b = self.s[self.i];
        match b {
            b'(' | b'[' => {
                let close = if b == b'(' { b')' } else { b']' };
                self.i += 1;
                let mut items = vec![];
                loop {
                    self.skip_ws()?;
                    if self.i >= self.s.len() {
                        return self.err(start, "unterminated list");
                    }
                    if self.s[self.i] == b')' || self.s[self.i] == b']' {
                        if self.s[self.i] != close {
                            return self.err(self.i, "mismatched close bracket");
                        }
                        self.i += 1;
                        return Ok(Node { d: Datum::List(items), start, end: self.i });
                    }
                    items.push(self.datum()?);
                }
            }
            b')' | b']' => self.err(start, "unexpected close parenthesis"),
            b'"' => self.string(),
            b'\'' | b'`' | b',' => {
                self.i += 1;
                let name = if b == b'\'' {
                    "quote"
                } else if b == b'`' {
                    "quasiquote"
                } else if self.s.get(self.i) == Some(&b'@') {
                    self.i += 1;
                    "unquote-splicing"
                } else {
                    "unquote"
                };
                let inner = self.datum()?;
                let end = inner.end;
                Ok(Node {
                    d: Datum::List(vec![Node { d: Datum::Sym(name.into()), start, end: self.i }, inner]),
                    start,
                    end,
                })
            }
            b'#' => self.hash(),
            _ => self.token(),
        }
    }

    fn string(&mut self) -> Result<Node, ReadError> {
        let start = self.i;
        self.i += 1;
        let mut out = String::new();
        loop {
            if self.i >= self.s.len() {
                return self.err(start, "unterminated string literal");
            }
            let rest = &self.src[self.i..];
            let c = rest.chars().next().unwrap();
            self.i += c.len_utf8();
            match c {
                '"' => return Ok(Node { d: Datum::Str(out), start, end: self.i }),
                '\\' => {
                    if self.i >= self.s.len() {
                        return self.err(start, "unterminated string literal");
                    }
                    let e = self.src[self.i..].chars().next().unwrap();
                    let epos = self.i;
                    self.i += e.len_utf8();
                    match e {
                        '\\' => out.push('\\'),
                        '"' => out.push('"'),
                        '|' => out.push('|'),
                        '(' => out.push('('),
                        '0' => out.push('\0'),
                        'a' => out.push('\x07'),
                        'b' => out.push('\x08'),
                        'f' => out.push('\x0c'),
                        'n' => out.push('\n'),
                        'r' => out.push('\r'),
                        't' => out.push('\t'),
                        'v' => out.push('\x0b'),
                        'x' => out.push(self.hex_escape(2, epos)?),
                        'u' => out.push(self.hex_escape(4, epos)?),
                        'U' => out.push(self.hex_escape(6, epos)?),
                        '\n' => {
                            // line continuation: skip leading blanks of the next line
                            while self.i < self.s.len() && (self.s[self.i] == b' ' || self.s[self.i] == b'\t') {
                                self.i += 1;
                            }
                        }
                        other => {
                            return self.err(epos, format!("invalid character in escape sequence: {other:?}"));
                        }
                    }
                }
                c => out.push(c),
            }
        }
    }

    fn hex_escape(&mut self, n: usize, pos: usize) -> Result<char, ReadError> {
        if self.i + n > self.s.len() {
            return self.err(pos, "truncated hex escape");
        }
        let h = &self.s[self.i..self.i + n];
        if !h.iter().all(|b| b.is_ascii_hexdigit()) {
            return self.err(pos, "bad hex escape");
        }
        let v = u32::from_str_radix(std::str::from_utf8(h).unwrap(), 16).unwrap();
        self.i += n;
        char::from_u32(v).ok_or(ReadError { pos, msg: "hex escape is not a character".into() })
    }

    fn take_token(&mut self) -> &'a str {
        let start = self.i;
        while self.i < self.s.len() && !is_delim(self.s[self.i]) {
            self.i += 1;
        }
        &self.src[start..self.i]
    }

    fn hash(&mut self) -> Result<Node, ReadError> {
        let start = self.i;
        match self.s.get(self.i + 1) {
            Some(b'\\') => {
                // character: #\ then at least one char, then up to the next delimiter
                self.i += 2;
                if self.i >= self.s.len() {
                    return self.err(start, "character literal at end of input");
                }
                let first = self.src[self.i..].chars().next().unwrap();
                self.i += first.len_utf8();
                let more = self.take_token();
                let name: String = std::iter::once(first).chain(more.chars()).collect();
                let c = if name.chars().count() == 1 {
                    first
                } else if let Some(c) = char_name(&name) {
                    c
                } else if (name.starts_with('x') || name.starts_with('U') || name.starts_with('u'))
                    && name[1..].chars().all(|c| c.is_ascii_hexdigit())
                {
                    let v = u32::from_str_radix(&name[1..], 16)
                        .map_err(|_| ReadError { pos: start, msg: "bad character code".into() })?;
                    char::from_u32(v).ok_or(ReadError { pos: start, msg: "character code out of range".into() })?
                } else if name.chars().all(|c| ('0'..='7').contains(&c)) {
                    let v = u32::from_str_radix(&name, 8)
                        .map_err(|_| ReadError { pos: start, msg: "bad octal character".into() })?;
                    char::from_u32(v).ok_or(ReadError { pos: start, msg: "character code out of range".into() })?
                } else {
                    return self.err(start, format!("unknown character name {name:?}"));
                };
                Ok(Node { d: Datum::Char(c), start, end: self.i })
            }
            _ => {
                let tok = self.take_token();
                let d = match tok {
                    "#t" | "#true" => Datum::Bool(true),
                    "#f" | "#false" => Datum::Bool(false),
                    _ => {
                        let (radix, body) = match tok.get(..2) {
                            Some("#o") | Some("#O") => (8, &tok[2..]),
                            Some("#x") | Some("#X") => (16, &tok[2..]),
                            Some("#b") | Some("#B") => (2, &tok[2..]),
                            Some("#d") | Some("#D") => (10, &tok[2..]),
                            _ => return self.err(start, format!("unsupported # syntax {tok:?}")),
                        };
                        let (neg, digits) = match body.strip_prefix('-') {
                            Some(r) => (true, r),
                            None => (false, body.strip_prefix('+').unwrap_or(body)),
                        };
                        if digits.is_empty() {
                            return self.err(start, format!("bad number {tok:?}"));
                        }
                        let v = u128::from_str_radix(digits, radix)
                            .map_err(|_| ReadError { pos: start, msg: format!("bad number {tok:?}") })?;
                        Datum::Num(format!("{}{}", if neg && v != 0 { "-" } else { "" }, v))
                    }
                };
                Ok(Node { d, start, end: self.i })
            }
        }
    }

    fn token(&mut self) -> Result<Node, ReadError> {
        let start = self.i;
        let tok = self.take_token();
        if tok.is_empty() {
            return self.err(start, "empty token");
        }
        let (neg, digits) = match tok.strip_prefix('-') {
            Some(r) => (true, r),
            None => (false, tok.strip_prefix('+').unwrap_or(tok)),
        };
        let d = if !digits.is_empty() && digits.bytes().all(|b| b.is_ascii_digit()) {
            let trimmed = digits.trim_start_matches('0');
            let t = if trimmed.is_empty() { "0" } else { trimmed };
            Datum::Num(format!("{}{}", if neg && t != "0" { "-" } else { "" }, t))
        } else if !digits.is_empty()
            && digits.bytes().next().map_or(false, |b| b.is_ascii_digit() || b == b'.')
            && digits.bytes().all(|b| b.is_ascii_digit() || matches!(b, b'.' | b'/' | b'e' | b'E'))
        {
            // decimals / rationals never occur in policy programs; refuse rather than guess
            return self.err(start, format!("unsupported numeric syntax {tok:?}"));
        } else {
            Datum::Sym(tok.to_string())
        };
        Ok(Node { d, start, end: self.i })
    }
}

fn char_name(name: &str) -> Option<char> {
    Some(match name {
        "nul" | "null" => '\0',
        "alarm" => '\x07',
        "backspace" => '\x08',
        "tab" | "ht" => '\t',
        "newline" | "nl" | "linefeed" | "lf" => '\n',
        "vtab" | "vt" => '\x0b',
        "page" | "ff" | "np" => '\x0c',
        "return" | "cr" => '\r',
        "escape" | "esc" | "altmode" => '\x1b',
        "space" | "sp" => ' ',
        "delete" | "del" | "rubout" => '\x7f',
        _ => return None,
    })
}

impl Node {
    pub fn as_list(&self) -> Option<&[Node]> {
        match &self.d {
            Datum::List(v) => Some(v),
            _ => None,
        }
    }
    pub fn as_sym(&self) -> Option<&str> {
        match &self.d {
            Datum::Sym(s) => Some(s),
            _ => None,
        }
    }
    pub fn as_str(&self) -> Option<&str> {
        match &self.d {
            Datum::Str(s) => Some(s),
            _ => None,
        }
    }
    pub fn as_num(&self) -> Option<&str> {
        match &self.d {
            Datum::Num(s) => Some(s),
            _ => None,
        }
    }
    pub fn head(&self) -> Option<&str> {
        self.as_list()?.first()?.as_sym()
    }

    /// Rendering with every string literal replaced by a hole (`"_"`); used to compare the
    /// structure of two programs irrespective of string contents.
    pub fn skeleton(&self) -> String {
        let mut s = String::new();
        self.write(&mut s, true);
        s
    }
    pub fn show(&self) -> String {
        let mut s = String::new();
        self.write(&mut s, false);
        s
    }
    fn write(&self, out: &mut String, holes: bool) {
        match &self.d {
            Datum::List(v) => {
                out.push('(');
                for (i, n) in v.iter().enumerate() {
                    if i > 0 {
                        out.push(' ');
                    }
                    n.write(out, holes);
                }
                out.push(')');
            }
            Datum::Sym(s) => out.push_str(s),
            Datum::Num(s) => out.push_str(s),
            Datum::Str(s) => {
                if holes {
                    out.push_str("\"_\"")
                } else {
                    out.push_str(&format!("{s:?}"))
                }
            }
            Datum::Char(c) => out.push_str(&format!("#\\x{:x}", *c as u32)),
            Datum::Bool(b) => out.push_str(if *b { "#t" } else { "#f" }),
        }
    }

    /// All string literals in document order.
    pub fn strings<'a>(&'a self, out: &mut Vec<&'a Node>) {
        match &self.d {
            Datum::List(v) => v.iter().for_each(|n| n.strings(out)),
            Datum::Str(_) => out.push(self),
            _ => {}
        }
    }

    pub fn walk<'a>(&'a self, f: &mut dyn FnMut(&'a Node)) {
        f(self);
        if let Datum::List(v) = &self.d {
            v.iter().for_each(|n| n.walk(f));
        }
    }
}

#[cfg(test)]
mod tests {
    use super::*;
    #[test]
    fn reads_policy_shapes() {
        let src = "(use-modules (lipe) (lipe find))\n\n(let* ((%lf3:port:0 (current-output-port)) (%lf3:print:2 (make-printer %lf3:port:0 %lf3:mutex:1 #\\x0a)))\n (f \"a\\n\" #o07777 -12 #f #\\x1e))";
        let v = read_all(src).unwrap();
        assert_eq!(v.len(), 2);
        assert_eq!(v[0].head(), Some("use-modules"));
        let s = v[1].show();
        assert!(s.contains("4095"), "{s}");
        assert!(s.contains("#\\xa"), "{s}");
    }
    #[test]
    fn bad_escape_is_error() {
        assert!(read_all("\"a\\cb\"").is_err());
        assert!(read_all("\"a").is_err());
        assert!(read_all("(a").is_err());
        assert!(read_all("a)").is_err());
        assert_eq!(read_all("\"\\x41\\\\\"").unwrap()[0].as_str(), Some("A\\"));
    }
}
