//! Printing spec-side trees as find command-line words (the "text route" into the subject).
use crate::ast::*;

pub fn cmp_prefix(c: Cmp) -> &'static str {
    match c {
        Cmp::Gt => "+",
        Cmp::Lt => "-",
        Cmp::Eq => "",
    }
}

/// Quote a string argument so that find's word rules deliver exactly `s`; `None` if no style can.
/// style: 0 = bare if possible, 1 = single quotes, 2 = double quotes.
pub fn quote_word_style(s: &str, style: u8) -> Option<String> {
    match style {
        0 => {
            let ok = !s.is_empty()
                && s.chars().all(|c| !c.is_whitespace() && c != ')' && c != '(' && c != '\'' && c != '"')
                && !s.starts_with('-')
                && !s.starts_with('!')
                && !s.starts_with(',');
            ok.then(|| s.to_string())
        }
        1 => (!s.is_empty() && !s.contains('\'')).then(|| format!("'{s}'")),
        2 => (!s.is_empty() && !s.contains('"')).then(|| format!("\"{s}\"")),
        _ => None,
    }
}

pub fn quote_word(s: &str) -> Option<String> {
    quote_word_style(s, 0)
        .or_else(|| quote_word_style(s, 1))
        .or_else(|| quote_word_style(s, 2))
}

pub fn field_text(f: &Field) -> String {
    match f {
        Field::Percent => "%%".into(),
        Field::Access => "%a".into(),
        Field::AccessFmt(c) => format!("%A{c}"),
        Field::DiskBlocks => "%b".into(),
        Field::Change => "%c".into(),
        Field::ChangeFmt(c) => format!("%C{c}"),
        Field::Depth => "%d".into(),
        Field::DevNum => "%D".into(),
        Field::Basename => "%f".into(),
        Field::FsType => "%F".into(),
        Field::Group => "%g".into(),
        Field::GroupId => "%G".into(),
        Field::Parents => "%h".into(),
        Field::StartingPoint => "%H".into(),
        Field::Inode => "%i".into(),
        Field::DiskKilos => "%k".into(),
        Field::SymTarget => "%l".into(),
        Field::PermOctal => "%m".into(),
        Field::PermSymbolic => "%M".into(),
        Field::Hardlinks => "%n".into(),
        Field::Name => "%p".into(),
        Field::NameNoStart => "%P".into(),
        Field::SizeBytes => "%s".into(),
        Field::Sparseness => "%S".into(),
        Field::Modify => "%t".into(),
        Field::ModifyFmt(c) => format!("%T{c}"),
        Field::User => "%u".into(),
        Field::UserId => "%U".into(),
        Field::Type => "%y".into(),
        Field::TypeSymlink => "%Y".into(),
        Field::SecContext => "%Z".into(),
        Field::FileId => "%{fid}".into(),
        Field::ProjectId => "%{projid}".into(),
        Field::MirrorCount => "%{mirror-count}".into(),
        Field::StripeCount => "%{stripe-count}".into(),
        Field::StripeSize => "%{stripe-size}".into(),
        Field::XAttr(n) => format!("%{{xattr:{n}}}"),
    }
}

pub fn special_text(s: &Special) -> String {
    match s {
        Special::Alarm => "\\a".into(),
        Special::Backspace => "\\b".into(),
        Special::Clear => "\\c".into(),
        Special::Form => "\\f".into(),
        Special::Newline => "\\n".into(),
        Special::CarriageReturn => "\\r".into(),
        Special::Tab => "\\t".into(),
        Special::VTab => "\\v".into(),
        Special::Null => "\\0".into(),
        Special::Backslash => "\\\\".into(),
        Special::Ascii(v) => format!("\\{:03o}", v),
    }
}

/// The find format string denoting this element list (literals must not contain `%` or `\`).
pub fn fmt_string(f: &[Fmt]) -> String {
    f.iter()
        .map(|e| match e {
            Fmt::Lit(s) => s.clone(),
            Fmt::Field(f) => field_text(f),
            Fmt::Special(s) => special_text(s),
        })
        .collect()
}

pub fn perm_text(kind: PermKind, bits: u32) -> String {
    let p = match kind {
        PermKind::AtLeast => "-",
        PermKind::Any => "/",
        PermKind::Equal => "",
    };
    format!("{p}{:04o}", bits)
}

pub fn test_words(t: &Test) -> Option<Vec<String>> {
    let n = |k: &str, c: &Cmp, v: &u64| Some(vec![k.to_string(), format!("{}{}", cmp_prefix(*c), v)]);
    let s = |k: &str, v: &str| Some(vec![k.to_string(), quote_word(v)?]);
    match t {
        Test::ATime(c, v, u) => tm("a", c, v, u),
        Test::CTime(c, v, u) => tm("c", c, v, u),
        Test::MTime(c, v, u) => tm("m", c, v, u),
        Test::Empty => Some(vec!["-empty".into()]),
        Test::Executable => Some(vec!["-executable".into()]),
        Test::False => Some(vec!["-false".into()]),
        Test::Gid(c, v) => n("-gid", c, v),
        Test::Inum(c, v) => n("-inum", c, v),
        Test::IName(v) => s("-iname", v),
        Test::IPath(v) => s("-ipath", v),
        Test::Links(c, v) => n("-links", c, v),
        Test::MirrorCount(c, v) => n("-mirror-count", c, v),
        Test::Name(v) => s("-name", v),
        Test::Path(v) => s("-path", v),
        Test::Perm(k, b) => Some(vec!["-perm".into(), perm_text(*k, *b)]),
        Test::Pool(v) => s("-pool", v),
        Test::Readable => Some(vec!["-readable".into()]),
        Test::Size(c, v, u) => Some(vec!["-size".into(), format!("{}{}{}", cmp_prefix(*c), v, u.letter())]),
        Test::StripeCount(c, v) => n("-stripe-count", c, v),
        Test::True => Some(vec!["-true".into()]),
        Test::Type(l) => Some(vec![
            "-type".into(),
            l.iter().map(|t| t.letter().to_string()).collect::<Vec<_>>().join(","),
        ]),
        Test::Uid(c, v) => n("-uid", c, v),
        Test::Writable => Some(vec!["-writable".into()]),
        Test::Xattr(v) => s("-xattr", v),
        Test::XattrMatch(a, b) => Some(vec!["-xattr-match".into(), quote_word(a)?, quote_word(b)?]),
        Test::ANewer(v) => s("-anewer", v),
        Test::CNewer(v) => s("-cnewer", v),
        Test::FsType(v) => s("-fstype", v),
        Test::Group(v) => s("-group", v),
        Test::ILName(v) => s("-ilname", v),
        Test::IRegex(v) => s("-iregex", v),
        Test::LName(_) => None, // the subject's vocabulary has no -lname keyword
        Test::MNewer(v) => s("-mnewer", v),
        Test::NoGroup => Some(vec!["-nogroup".into()]),
        Test::NoUser => Some(vec!["-nouser".into()]),
        Test::Regex(v) => s("-regex", v),
        Test::Samefile(v) => s("-samefile", v),
        Test::User(v) => s("-user", v),
    }
}

fn tm(which: &str, c: &Cmp, v: &u64, u: &TimeUnit) -> Option<Vec<String>> {
    // -Xmin defaults to minutes, -Xtime to days; always spell the unit except in those cases
    let (kw, arg) = match u {
        TimeUnit::Min => (format!("-{which}min"), format!("{}{}", cmp_prefix(*c), v)),
        TimeUnit::Day => (format!("-{which}time"), format!("{}{}", cmp_prefix(*c), v)),
        u => (format!("-{which}time"), format!("{}{}{}", cmp_prefix(*c), v, u.letter())),
    };
    Some(vec![kw, arg])
}

fn fmt_word(f: &[Fmt]) -> Option<String> {
    let s = fmt_string(f);
    // format strings are always quoted: they contain backslashes and percent signs
    quote_word_style(&s, 1).or_else(|| quote_word_style(&s, 2))
}

pub fn action_words(a: &Action) -> Option<Vec<String>> {
    match a {
        Action::Fls(f) => Some(vec!["-fls".into(), quote_word(f)?]),
        Action::FPrint(f) => Some(vec!["-fprint".into(), quote_word(f)?]),
        Action::FPrint0(f) => Some(vec!["-fprint0".into(), quote_word(f)?]),
        Action::FPrintf(f, fmt) => Some(vec!["-fprintf".into(), quote_word(f)?, fmt_word(fmt)?]),
        Action::Ls => Some(vec!["-ls".into()]),
        Action::Print => Some(vec!["-print".into()]),
        Action::Print0 => Some(vec!["-print0".into()]),
        Action::Printf(fmt) => Some(vec!["-printf".into(), fmt_word(fmt)?]),
        Action::PrintFid => Some(vec!["-print-file-fid".into()]),
        Action::Prune => Some(vec!["-prune".into()]),
        Action::Quit => Some(vec!["-quit".into()]),
        Action::DefaultPrint => None,
    }
}

pub fn global_words(g: &Global) -> Vec<String> {
    match g {
        Global::Depth => vec!["-depth".into()],
        Global::MaxDepth(n) => vec!["-maxdepth".into(), n.to_string()],
        Global::MinDepth(n) => vec!["-mindepth".into(), n.to_string()],
        Global::Threads(n) => vec!["-threads".into(), n.to_string()],
    }
}

#[derive(Clone, Copy, PartialEq, Eq, Debug)]
pub enum ParenStyle {
    /// only the parentheses the grammar requires
    Minimal,
    /// parentheses around every operator node
    Full,
}

fn level(e: &Expr) -> u8 {
    match e {
        Expr::List(..) => 0,
        Expr::Or(..) => 1,
        Expr::And(..) => 2,
        Expr::Not(..) => 3,
        _ => 4,
    }
}

/// Words denoting the tree; `None` if some leaf has no textual form (Prec nodes, DefaultPrint,
/// Global/Positional leaves and strings no quoting style can carry).
pub fn expr_words(e: &Expr, style: ParenStyle, and_word: Option<&str>, or_word: &str) -> Option<Vec<String>> {
    let mut out = vec![];
    emit(e, 0, style, and_word, or_word, true, &mut out)?;
    Some(out)
}

fn emit(
    e: &Expr,
    min: u8,
    style: ParenStyle,
    and_word: Option<&str>,
    or_word: &str,
    top: bool,
    out: &mut Vec<String>,
) -> Option<()> {
    let lv = level(e);
    let need = lv < min || (style == ParenStyle::Full && lv < 4 && !top);
    if need {
        out.push("(".into());
        emit_inner(e, style, and_word, or_word, out)?;
        out.push(")".into());
        Some(())
    } else {
        emit_inner(e, style, and_word, or_word, out)
    }
}

fn emit_inner(e: &Expr, style: ParenStyle, and_word: Option<&str>, or_word: &str, out: &mut Vec<String>) -> Option<()> {
    match e {
        Expr::List(a, b) => {
            emit(a, 0, style, and_word, or_word, false, out)?;
            out.push(",".into());
            emit(b, 1, style, and_word, or_word, false, out)
        }
        Expr::Or(a, b) => {
            emit(a, 1, style, and_word, or_word, false, out)?;
            out.push(or_word.into());
            emit(b, 2, style, and_word, or_word, false, out)
        }
        Expr::And(a, b) => {
            emit(a, 2, style, and_word, or_word, false, out)?;
            if let Some(w) = and_word {
                out.push(w.into());
            }
            emit(b, 3, style, and_word, or_word, false, out)
        }
        Expr::Not(a) => {
            out.push("!".into());
            emit(a, 3, style, and_word, or_word, false, out)
        }
        Expr::Prec(_) => None,
        Expr::Test(t) => {
            out.extend(test_words(t)?);
            Some(())
        }
        Expr::Action(a) => {
            out.extend(action_words(a)?);
            Some(())
        }
        Expr::Global(_) | Expr::Positional => None,
    }
}
