//! Exhaustive enumeration of expression trees over a leaf menu.
use crate::ast::Expr;

#[derive(Clone, Copy, Debug, PartialEq, Eq)]
pub enum Op {
    And,
    Or,
    List,
}

pub const OPS: [Op; 3] = [Op::And, Op::Or, Op::List];

pub fn bin(op: Op, a: Expr, b: Expr) -> Expr {
    match op {
        Op::And => Expr::and(a, b),
        Op::Or => Expr::or(a, b),
        Op::List => Expr::list(a, b),
    }
}

/// Tree shapes with `n` leaves: a shape is a function from a leaf vector to a tree; here encoded
/// as nested index structure.
#[derive(Clone, Debug)]
pub enum Shape {
    Leaf,
    Bin(Box<Shape>, Box<Shape>),
}

pub fn shapes(n: usize) -> Vec<Shape> {
    if n == 1 {
        return vec![Shape::Leaf];
    }
    let mut out = vec![];
    for k in 1..n {
        for l in shapes(k) {
            for r in shapes(n - k) {
                out.push(Shape::Bin(Box::new(l.clone()), Box::new(r)));
            }
        }
    }
    out
}

impl Shape {
    pub fn internal(&self) -> usize {
        match self {
            Shape::Leaf => 0,
            Shape::Bin(a, b) => 1 + a.internal() + b.internal(),
        }
    }
    /// Build the tree taking leaves and operators from the iterators (pre-order).
    pub fn build(&self, leaves: &mut dyn Iterator<Item = Expr>, ops: &mut dyn Iterator<Item = Op>) -> Expr {
        match self {
            Shape::Leaf => leaves.next().unwrap(),
            Shape::Bin(a, b) => {
                let op = ops.next().unwrap();
                let l = a.build(leaves, ops);
                let r = b.build(leaves, ops);
                bin(op, l, r)
            }
        }
    }
}

/// Number of trees with exactly n leaves over `m` leaf choices and 3 operators (no negations).
pub fn count(n: usize, m: u64) -> u64 {
    shapes(n).len() as u64 * m.pow(n as u32) * 3u64.pow(n as u32 - 1)
}

/// The `idx`-th tree with exactly `n` leaves: idx decomposes into (shape, leaf choices, op choices).
pub fn nth(shapes_n: &[Shape], n: usize, menu: &[Expr], mut idx: u64) -> Expr {
    let m = menu.len() as u64;
    let mut leaves = Vec::with_capacity(n);
    for _ in 0..n {
        leaves.push(menu[(idx % m) as usize].clone());
        idx /= m;
    }
    let mut ops = Vec::with_capacity(n - 1);
    for _ in 0..n.saturating_sub(1) {
        ops.push(OPS[(idx % 3) as usize]);
        idx /= 3;
    }
    let shape = &shapes_n[(idx % shapes_n.len() as u64) as usize];
    shape.build(&mut leaves.into_iter(), &mut ops.into_iter())
}

/// All ways of negating a subset of the nodes of a tree, restricted to: each leaf, and the root.
pub fn negation_variants(e: &Expr) -> Vec<Expr> {
    fn leaves_variants(e: &Expr) -> Vec<Expr> {
        match e {
            Expr::And(a, b) | Expr::Or(a, b) | Expr::List(a, b) => {
                let mut out = vec![];
                for l in leaves_variants(a) {
                    for r in leaves_variants(b) {
                        out.push(match e {
                            Expr::And(..) => Expr::and(l.clone(), r),
                            Expr::Or(..) => Expr::or(l.clone(), r),
                            _ => Expr::list(l.clone(), r),
                        });
                    }
                }
                out
            }
            leaf => vec![leaf.clone(), Expr::not(leaf.clone())],
        }
    }
    let mut out = vec![];
    for v in leaves_variants(e) {
        if v.leaves() > 1 {
            out.push(Expr::not(v.clone()));
        }
        out.push(v);
    }
    out
}

/// A balanced tree over `leaves` (depth ~ log2 n) under one operator.
pub fn balanced(op: Op, leaves: &[Expr]) -> Expr {
    match leaves.len() {
        0 => Expr::Test(crate::ast::Test::True),
        1 => leaves[0].clone(),
        n => bin(op, balanced(op, &leaves[..n / 2]), balanced(op, &leaves[n / 2..])),
    }
}

/// A left-nested chain (depth n) under one operator: the first leaf is the deepest.
pub fn left_chain(op: Op, leaves: &[Expr]) -> Expr {
    let mut it = leaves.iter().cloned();
    let mut acc = it.next().unwrap_or(Expr::Test(crate::ast::Test::True));
    for e in it {
        acc = bin(op, acc, e);
    }
    acc
}

/// Run `f` on a thread with a 2 GiB stack (deep trees recurse in the harness and in the subject).
pub fn on_big_stack<T: Send + 'static>(f: impl FnOnce() -> T + Send + 'static) -> Option<T> {
    std::thread::Builder::new().stack_size(2 << 30).spawn(f).ok()?.join().ok()
}
