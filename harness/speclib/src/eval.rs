//! Reference evaluation of an expression tree on a file record by find's rules (property C02):
//! short-circuit AND/OR, negation, ',' treated as AND (as the project documents), each test
//! with its N/+N/-N comparison, unit rounding and field, each action appending an output event
//! and yielding true, -quit stopping the evaluation and raising the stop flag.
//!
//! Which record attribute a test or directive denotes is fixed by the tables in this file,
//! written from find(1) and, where find has no opinion (Lustre attributes, which of the path
//! forms LiPE prints), from the project's own conventions.
use crate::ast::*;
use crate::record::{dirname, fnmatch, has_glob, streq, Record};

#[derive(Clone, Debug, PartialEq, Eq, Hash)]
pub struct Event {
    /// None = standard output
    pub dest: Option<String>,
    /// bytes written including the record terminator
    pub text: String,
}

#[derive(Clone, Debug, PartialEq, Eq)]
pub struct Outcome {
    /// value of the whole expression; None when evaluation was cut short by -quit
    pub truth: Option<bool>,
    pub events: Vec<Event>,
    pub stopped: bool,
}

/// The expression has no defined meaning on this record (DESIGN.md §2.3) or uses a construct
/// the target cannot express.
#[derive(Clone, Debug, PartialEq, Eq)]
pub struct Undefined(pub &'static str);

struct Ev<'a> {
    r: &'a Record,
    now: u64,
    events: Vec<Event>,
    stopped: bool,
}

fn cmp(c: Cmp, v: u128, n: u128) -> bool {
    match c {
        Cmp::Eq => v == n,
        Cmp::Gt => v > n,
        Cmp::Lt => v < n,
    }
}

pub fn eval(e: &Expr, r: &Record, now: u64) -> Result<Outcome, Undefined> {
    let mut ev = Ev { r, now, events: vec![], stopped: false };
    let t = ev.expr(e)?;
    Ok(Outcome { truth: if ev.stopped { None } else { Some(t) }, events: ev.events, stopped: ev.stopped })
}

impl<'a> Ev<'a> {
    fn expr(&mut self, e: &Expr) -> Result<bool, Undefined> {
        if self.stopped {
            return Ok(false);
        }
        Ok(match e {
            Expr::Not(a) => {
                let v = self.expr(a)?;
                !v
            }
            Expr::Prec(a) => self.expr(a)?,
            Expr::And(a, b) | Expr::List(a, b) => {
                if self.expr(a)? && !self.stopped {
                    self.expr(b)?
                } else {
                    false
                }
            }
            Expr::Or(a, b) => {
                if self.expr(a)? || self.stopped {
                    true
                } else {
                    self.expr(b)?
                }
            }
            Expr::Test(t) => test(t, self.r, self.now)?,
            Expr::Action(a) => self.action(a)?,
            Expr::Global(_) | Expr::Positional => return Err(Undefined("option node in the tree")),
        })
    }

    fn out(&mut self, dest: Option<&str>, text: String) {
        self.events.push(Event { dest: dest.map(String::from), text });
    }

    fn action(&mut self, a: &Action) -> Result<bool, Undefined> {
        let r = self.r;
        match a {
            Action::Print | Action::DefaultPrint => self.out(None, format!("{}\n", r.rel_path)),
            Action::Print0 => self.out(None, format!("{}\0", r.rel_path)),
            Action::FPrint(f) => self.out(Some(f), format!("{}\n", r.rel_path)),
            Action::FPrint0(f) => self.out(Some(f), format!("{}\0", r.rel_path)),
            Action::Printf(f) => {
                let t = render(f, r)?;
                self.out(None, t)
            }
            Action::FPrintf(d, f) => {
                let t = render(f, r)?;
                self.out(Some(d), t)
            }
            Action::PrintFid => self.out(None, format!("{}\n", r.fid)),
            Action::Quit => {
                self.stopped = true;
                return Ok(true);
            }
            Action::Ls | Action::Fls(_) | Action::Prune => return Err(Undefined("action the target cannot express")),
        }
        Ok(true)
    }
}

pub fn test(t: &Test, r: &Record, now: u64) -> Result<bool, Undefined> {
    let age = |stamp: u64, c: &Cmp, n: &u64, u: &TimeUnit| -> Result<bool, Undefined> {
        if stamp > now {
            return Err(Undefined("timestamp in the future of the compile-time clock"));
        }
        // find: the age is truncated to whole units ("any fractional part is ignored")
        let units = (now - stamp) as u128 / u.secs();
        Ok(cmp(*c, units, *n as u128))
    };
    Ok(match t {
        Test::ATime(c, n, u) => age(r.atime, c, n, u)?,
        Test::CTime(c, n, u) => age(r.ctime, c, n, u)?,
        Test::MTime(c, n, u) => age(r.mtime, c, n, u)?,
        Test::Empty => r.empty,
        Test::Executable => r.executable,
        Test::Readable => r.readable,
        Test::Writable => r.writable,
        Test::True => true,
        Test::False => false,
        Test::Uid(c, n) => cmp(*c, r.uid as u128, *n as u128),
        Test::Gid(c, n) => cmp(*c, r.gid as u128, *n as u128),
        Test::Inum(c, n) => cmp(*c, r.ino as u128, *n as u128),
        Test::Links(c, n) => cmp(*c, r.nlink as u128, *n as u128),
        Test::MirrorCount(c, n) => cmp(*c, r.mirror_count as u128, *n as u128),
        Test::StripeCount(c, n) => cmp(*c, r.stripe_count as u128, *n as u128),
        Test::Size(c, n, u) => {
            // find: the size is rounded up to whole units before comparing
            let b = u.bytes();
            let units = (r.size as u128 + b - 1) / b;
            cmp(*c, units, *n as u128)
        }
        Test::Name(p) => name_match(p, &r.name, false),
        Test::IName(p) => name_match(p, &r.name, true),
        Test::Path(p) => name_match(p, &r.rel_path, false),
        Test::IPath(p) => name_match(p, &r.rel_path, true),
        Test::Perm(k, bits) => {
            let m = r.mode & 0o7777;
            match k {
                PermKind::Equal => m == *bits,
                PermKind::AtLeast => m & bits == *bits,
                // "any given bit set": with no bit given no file qualifies (the property states the
                // rule without GNU find's special case for an empty mask)
                PermKind::Any => m & bits != 0,
            }
        }
        Test::Type(l) => l.iter().any(|t| r.mode & 0o170000 == t.ifmt()),
        Test::Pool(p) => r.pools.iter().any(|x| x == p),
        Test::Xattr(n) => r.xattr(n).is_some(),
        Test::XattrMatch(n, v) => {
            // same rule as for names: only a string with a pattern character is a pattern; any
            // other name/value pair (backslashes included) is looked up and compared as it stands
            let pattern = |s: &str| s.contains(|c| "*?['".contains(c));
            if pattern(n) || pattern(v) {
                r.xattrs.iter().any(|(xn, xv)| fnmatch(n, xn, false) && fnmatch(v, xv, false))
            } else {
                r.xattr(n) == Some(v.as_str())
            }
        }
        Test::ANewer(_)
        | Test::CNewer(_)
        | Test::FsType(_)
        | Test::Group(_)
        | Test::ILName(_)
        | Test::IRegex(_)
        | Test::LName(_)
        | Test::MNewer(_)
        | Test::NoGroup
        | Test::NoUser
        | Test::Regex(_)
        | Test::Samefile(_)
        | Test::User(_) => return Err(Undefined("test the target cannot express")),
    })
}

fn name_match(pat: &str, s: &str, ci: bool) -> bool {
    // the project's documented rule: a string with a glob character is matched as a pattern,
    // any other string (a backslash included) is compared as it stands
    if has_glob(pat) {
        fnmatch(pat, s, ci)
    } else {
        streq(pat, s, ci)
    }
}

fn gcd(a: u128, b: u128) -> u128 {
    if b == 0 {
        a
    } else {
        gcd(b, a % b)
    }
}

/// What a formatted print writes for this record.
pub fn render(f: &[Fmt], r: &Record) -> Result<String, Undefined> {
    let mut out = String::new();
    for e in f {
        match e {
            Fmt::Lit(s) => out.push_str(s),
            Fmt::Special(s) => match s {
                Special::Alarm => out.push('\x07'),
                Special::Backspace => out.push('\x08'),
                Special::Form => out.push('\x0c'),
                Special::Newline => out.push('\n'),
                Special::CarriageReturn => out.push('\r'),
                Special::Tab => out.push('\t'),
                Special::VTab => out.push('\x0b'),
                Special::Null => out.push('\0'),
                Special::Backslash => out.push('\\'),
                Special::Ascii(v) => {
                    if *v > 255 {
                        return Err(Undefined("octal escape above \\377"));
                    }
                    out.push(char::from_u32(*v as u32).unwrap())
                }
                // "\c: stop printing from this format immediately"
                Special::Clear => return Ok(out),
            },
            Fmt::Field(f) => out.push_str(&field(f, r)?),
        }
    }
    Ok(out)
}

fn strf(sel: char, stamp: u64) -> String {
    if sel == '@' {
        stamp.to_string()
    } else {
        // uninterpreted, in the runtime model's token form
        format!("strftime(%{sel},localtime({stamp}))")
    }
}

pub fn field(f: &Field, r: &Record) -> Result<String, Undefined> {
    Ok(match f {
        Field::Percent => "%".into(),
        // project convention: the plain time directives print the epoch second of the field
        Field::Access => r.atime.to_string(),
        Field::Change => r.ctime.to_string(),
        Field::Modify => r.mtime.to_string(),
        Field::AccessFmt(k) => strf(*k, r.atime),
        Field::ChangeFmt(k) => strf(*k, r.ctime),
        Field::ModifyFmt(k) => strf(*k, r.mtime),
        Field::DiskBlocks => r.blocks.to_string(),
        // 1K blocks: half the 512-byte blocks, rounded up
        Field::DiskKilos => ((r.blocks + 1) / 2).to_string(),
        Field::Basename => r.name.clone(),
        Field::Group => r.group.clone(),
        Field::GroupId => r.gid.to_string(),
        Field::Parents => dirname(&r.rel_path),
        Field::StartingPoint => r.mount.clone(),
        Field::Inode => r.ino.to_string(),
        Field::PermOctal => format!("{:o}", r.mode & 0o7777),
        Field::Hardlinks => r.nlink.to_string(),
        // project convention: %p is the path including the mount point, %P the path below it
        Field::Name => r.abs_path.clone(),
        Field::NameNoStart => r.rel_path.clone(),
        Field::SizeBytes => r.size.to_string(),
        Field::Sparseness => {
            if r.size == 0 {
                return Err(Undefined("%S on a file of size 0"));
            }
            let (n, d) = (512u128 * r.blocks as u128, r.size as u128);
            let g = gcd(n, d).max(1);
            format!("f({}/{})", n / g, d / g)
        }
        Field::User => r.user.clone(),
        Field::UserId => r.uid.to_string(),
        Field::Type => r.type_char().to_string(),
        Field::FileId => r.fid.clone(),
        Field::ProjectId => r.projid.to_string(),
        Field::MirrorCount => r.mirror_count.to_string(),
        Field::StripeCount => r.stripe_count.to_string(),
        Field::StripeSize => r.stripe_size.to_string(),
        Field::XAttr(n) => r.xattr(n).unwrap_or("").to_string(),
        Field::Depth
        | Field::DevNum
        | Field::FsType
        | Field::SymTarget
        | Field::PermSymbolic
        | Field::TypeSymlink
        | Field::SecContext => return Err(Undefined("directive the target cannot express")),
    })
}

/// Is every construct of the tree expressible in the target (property C12's partition)?
/// Returns the Debug-style names of the inexpressible constructs found.
pub fn inexpressible(e: &Expr) -> Vec<String> {
    let mut out = vec![];
    e.visit_leaves(&mut |l| match l {
        Expr::Test(t) => {
            if matches!(
                t,
                Test::ANewer(_)
                    | Test::CNewer(_)
                    | Test::FsType(_)
                    | Test::Group(_)
                    | Test::ILName(_)
                    | Test::IRegex(_)
                    | Test::LName(_)
                    | Test::MNewer(_)
                    | Test::NoGroup
                    | Test::NoUser
                    | Test::Regex(_)
                    | Test::Samefile(_)
                    | Test::User(_)
            ) {
                out.push(variant_name(&format!("{t:?}")));
            }
        }
        Expr::Action(a) => match a {
            Action::Ls | Action::Fls(_) | Action::Prune => out.push(variant_name(&format!("{a:?}"))),
            Action::Printf(f) | Action::FPrintf(_, f) => {
                for el in f {
                    if let Fmt::Field(x) = el {
                        if field_inexpressible(x) {
                            out.push(variant_name(&format!("{x:?}")));
                        }
                    }
                }
            }
            _ => {}
        },
        Expr::Global(g) => out.push(variant_name(&format!("{g:?}"))),
        Expr::Positional => out.push("Positional".into()),
        _ => {}
    });
    out
}

pub fn field_inexpressible(x: &Field) -> bool {
    matches!(
        x,
        Field::Depth | Field::DevNum | Field::FsType | Field::SymTarget | Field::PermSymbolic | Field::TypeSymlink | Field::SecContext
    )
}

fn variant_name(dbg: &str) -> String {
    dbg.split(|c: char| c == '(' || c == ' ' || c == '{').next().unwrap_or(dbg).to_string()
}

/// Merge adjacent events to the same destination (what a reader of the destinations can see).
pub fn coalesce(events: &[Event]) -> Vec<Event> {
    let mut out: Vec<Event> = vec![];
    for e in events {
        if e.text.is_empty() {
            continue;
        }
        match out.last_mut() {
            Some(l) if l.dest == e.dest => l.text.push_str(&e.text),
            _ => out.push(e.clone()),
        }
    }
    out
}

#[cfg(test)]
mod tests {
    use super::*;
    #[test]
    fn size_rounding_and_short_circuit() {
        let mut r = Record::distinct(1_000_000);
        r.size = 1025;
        assert!(test(&Test::Size(Cmp::Eq, 2, SizeUnit::Kilo), &r, 0).unwrap());
        assert!(!test(&Test::Size(Cmp::Eq, 1, SizeUnit::Kilo), &r, 0).unwrap());
        let e = Expr::or(Expr::t(Test::True), Expr::a(Action::Print));
        let o = eval(&e, &r, 0).unwrap();
        assert_eq!(o.truth, Some(true));
        assert!(o.events.is_empty());
        let e = Expr::and(Expr::a(Action::Quit), Expr::a(Action::Print));
        let o = eval(&e, &r, 0).unwrap();
        assert!(o.stopped && o.events.is_empty());
    }
}
