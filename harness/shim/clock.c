/* Clock seam for the checks: the library under test reads the wall clock (one read per time test,
 * through libc's clock_gettime).  Preloaded into a child run of a check, this shim shifts
 * CLOCK_REALTIME (and time(), gettimeofday()) by FPVERIF_CLOCK_OFFSET seconds, so that a check
 * can be run "at" another date: the library and the harness see the same shifted clock, which
 * still advances.  Nothing else is changed. */
#define _GNU_SOURCE
#include <dlfcn.h>
#include <stdlib.h>
#include <sys/time.h>
#include <time.h>

static long long offset_s(void) {
    static int init = 0;
    static long long off = 0;
    if (!init) {
        const char *v = getenv("FPVERIF_CLOCK_OFFSET");
        off = v ? atoll(v) : 0;
        init = 1;
    }
    return off;
}

int clock_gettime(clockid_t id, struct timespec *ts) {
    static int (*real)(clockid_t, struct timespec *) = 0;
    if (!real) real = (int (*)(clockid_t, struct timespec *))dlsym(RTLD_NEXT, "clock_gettime");
    int r = real(id, ts);
    if (r == 0 && id == CLOCK_REALTIME) ts->tv_sec += offset_s();
    return r;
}

time_t time(time_t *t) {
    struct timespec ts;
    clock_gettime(CLOCK_REALTIME, &ts);
    if (t) *t = ts.tv_sec;
    return ts.tv_sec;
}

int gettimeofday(struct timeval *tv, void *tz) {
    (void)tz;
    struct timespec ts;
    clock_gettime(CLOCK_REALTIME, &ts);
    if (tv) {
        tv->tv_sec = ts.tv_sec;
        tv->tv_usec = ts.tv_nsec / 1000;
    }
    return 0;
}
