#!/usr/bin/env python3
"""Markdown table of the seeded-change experiments (from /verif/seeded/*/meta.json)."""
import json, glob
print("| seed | breaks | what the change is | needs to manifest | reported by (quick tier) | signature of the own-property check |")
print("|---|---|---|---|---|---|")
def key(f):
    import re
    m = re.search(r'/(C\d+)-(\d+)/', f)
    return (m.group(1), int(m.group(2)))
for f in sorted(glob.glob('/verif/seeded/*/meta.json'), key=key):
    d = json.load(open(f))
    m = d.get('meta', {})
    own = d['seed'].split('-')[0]
    det = d.get('detection', {}) if isinstance(d.get('detection'), dict) else {}
    sig = ''
    if own in det and det[own].get('signatures'):
        sig = '`' + det[own]['signatures'][0] + '`'
    def cut(s, n):
        s = ' '.join(str(s).split())
        return s if len(s) <= n else s[:n-1] + '…'
    print(f"| {d['seed']} | {own} | {cut(m.get('summary',''), 140)} | {cut(m.get('needs_to_manifest',''), 110)} | {', '.join(d.get('caught_by') or []) or '—'} | {sig} |")
