#!/bin/bash
# re-run the own-property check of already recorded seeds (no re-confirmation) against a fresh
# snapshot of the harness: args = seed ids (default: all under /verif/seeded)
cd /verif
python3 tools/seedtest.py --prepare
for id in ${@:-$(ls seeded)}; do
  python3 tools/seedtest.py /verif/seeded/$id $id --own --no-confirm 2>&1 | tail -1
done
echo BATCH-DONE
