#!/bin/bash
# re-run a subset of checks against the recorded behaviour-preserving variants, in N lanes side by side:
#   benignlanes.sh <lanes> <C01,C09,...>
cd /verif
n=$1; checks=$2
ids=($(ls benign))
for l in $(seq 0 $((n-1))); do
  (
    export SEED_SNAP=/tmp/benigncheck-verif-$l SEED_SRC=/tmp/benigncheck-src-$l SEED_TARGET=/tmp/benigncheck-target-$l
    python3 tools/seedtest.py --prepare
    for i in $(seq $l $n $((${#ids[@]}-1))); do
      python3 tools/seedtest.py --benign /verif/benign/${ids[$i]} ${ids[$i]} --checks $checks 2>&1 | tail -1
    done
    echo LANE-$l-DONE
  ) > /tmp/benign-lane-$l.log 2>&1 &
done
wait
echo ALL-DONE
