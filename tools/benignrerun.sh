#!/bin/bash
# re-run every check against the recorded behaviour-preserving variants (/verif/benign/<id>)
cd /verif
export SEED_SNAP=/tmp/benigncheck-verif SEED_SRC=/tmp/benigncheck-src
python3 tools/seedtest.py --prepare
for id in ${@:-$(ls benign)}; do
  python3 tools/seedtest.py --benign /verif/benign/$id $id 2>&1 | tail -1
done
echo BATCH-DONE
