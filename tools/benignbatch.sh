#!/bin/bash
# run every check against behaviour-preserving variants (/tmp/wb-N/variant/k): all must stay silent
cd /verif
export SEED_SNAP=/tmp/benigncheck-verif SEED_SRC=/tmp/benigncheck-src
python3 tools/seedtest.py --prepare
for d in ${@:-/tmp/wb-*/variant/[0-9]}; do
  [ -f $d/patch.diff ] || continue
  id=$(echo $d | sed 's|/tmp/wb-\([0-9]*\)/variant/\([0-9]\)|B\1-\2|')
  python3 tools/seedtest.py --benign $d $id 2>&1 | tail -1
done
echo BATCH-DONE
