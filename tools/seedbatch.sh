#!/bin/bash
# evaluate seeds against a snapshot of the harness: args = seed dirs (default: all)
cd /verif
python3 tools/seedtest.py --prepare
for d in ${@:-/tmp/wt-C*/seed/[0-9]}; do
  id=$(echo $d | sed 's|/tmp/wt-\(C[0-9]*\)/seed/\([0-9]*\)|\1-\2|')
  python3 tools/seedtest.py $d $id $SEEDTEST_ARGS 2>&1 | tail -2
done
echo BATCH-DONE
