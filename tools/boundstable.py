#!/usr/bin/env python3
"""Markdown table of what the committed evidence files say each quick check covered, next to the
wall time of the last complete thorough run (passed as a log file: lines 'Cnn exit=0 123s ...')."""
import json, glob, re, sys
thorough = {}
if len(sys.argv) > 1:
    for l in open(sys.argv[1]):
        m = re.match(r"(C\d+) exit=(\d+) (\d+)s .*states=(\d+)", l)
        if m:
            thorough[m.group(1)] = (m.group(2), int(m.group(3)), int(m.group(4)))
print("| check | level | quick: states | distinct outcomes | wall (s) | violations / known | thorough: states | wall (s) |")
print("|---|---|---|---|---|---|---|---|")
for f in sorted(glob.glob('/verif/evidence/C*.json')):
    d = json.load(open(f))
    c = d['coverage']
    pid = d['property_id']
    t = thorough.get(pid)
    known = len(c.get('known_findings_observed', [])) if isinstance(c.get('known_findings_observed'), list) else 0
    print(f"| {pid} | {d['level']} | {c.get('states')} | {c.get('distinct_observed_outcomes', '?')} | {round(d.get('wall_s', 0), 1)} | {d.get('violations')} / {known} | {t[2] if t else '—'} | {t[1] if t else '—'} |")
