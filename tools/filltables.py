#!/usr/bin/env python3
"""Regenerates the two generated tables of DESIGN.md in place (8.5 seed table, 8.6 coverage)."""
import re, subprocess, sys
s = open('/verif/DESIGN.md').read()
seed = subprocess.run(["python3", "/verif/tools/seedtable.py"], capture_output=True, text=True).stdout.rstrip()
args = ["python3", "/verif/tools/boundstable.py"] + sys.argv[1:2]
bounds = subprocess.run(args, capture_output=True, text=True).stdout.rstrip()
a = s.index("| seed | breaks |")
b = s.index("### 8.6 What the final runs covered")
s = s[:a] + seed + "\n\n" + s[b:]
a = s.index("| check | level | quick: states")
s = s[:a] + bounds + "\n"
open('/verif/DESIGN.md', 'w').write(s)
print("tables regenerated")
