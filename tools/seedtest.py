#!/usr/bin/env python3
"""Evaluate one seeded change: confirm it (compiles, 45 tests pass, demo fails with / passes
without) in a scratch worktree outside /repo and /verif, then apply it to /repo, run the quick
checks, record which report it, and undo it straight afterwards.

usage: seedtest.py <seed-dir> <seed-id> [--checks C01,C02,...]
  <seed-dir> holds patch.diff, demo.rs, meta.json ; results go to /verif/seeded/<seed-id>/
"""
import json, os, re, shutil, subprocess, sys, time

REPO = "/repo"
VERIF = "/verif"
SCRATCH = os.environ.get("SEED_SCRATCH", "/tmp/seedcheck")
TARGET = os.environ.get("SEED_TARGET", "/tmp/seedcheck-target")

def run(cmd, cwd=None, env=None, timeout=3600):
    e = dict(os.environ)
    e.update({"CARGO_NET_OFFLINE": "true"})
    if env:
        e.update(env)
    p = subprocess.run(cmd, cwd=cwd, env=e, shell=isinstance(cmd, str), capture_output=True, text=True, timeout=timeout)
    return p.returncode, p.stdout + p.stderr

def confirm(seed):
    """Returns dict with the confirmation steps."""
    res = {}
    run(f"git -C {REPO} worktree remove --force {SCRATCH}")
    shutil.rmtree(SCRATCH, ignore_errors=True)
    rc, out = run(f"git -C {REPO} worktree add -q --detach {SCRATCH} HEAD")
    if rc != 0:
        return {"error": "worktree add failed: " + out}
    try:
        rc, out = run(f"git apply {seed}/patch.diff", cwd=SCRATCH)
        res["patch_applies"] = rc == 0
        if rc != 0:
            res["apply_output"] = out[-500:]
            return res
        env = {"CARGO_TARGET_DIR": TARGET}
        rc, out = run("cargo test --offline 2>&1", cwd=SCRATCH, env=env)
        m = re.search(r"test result: (\w+)\. (\d+) passed; (\d+) failed", out)
        res["suite_with_patch"] = m.group(0) if m else out[-400:]
        res["suite_passes_with_patch"] = bool(m and m.group(1) == "ok" and m.group(2) == "45")
        os.makedirs(f"{SCRATCH}/tests", exist_ok=True)
        shutil.copy(f"{seed}/demo.rs", f"{SCRATCH}/tests/demo.rs")
        rc, out = run("cargo test --offline --test demo 2>&1", cwd=SCRATCH, env=env)
        res["demo_fails_with_patch"] = rc != 0
        need_release = rc == 0 or os.environ.get("SEED_FULL_CONFIRM")
        if need_release:
            rc2, out2 = run("cargo test --offline --release --test demo 2>&1", cwd=SCRATCH, env=env)
            res["demo_fails_with_patch_release"] = rc2 != 0
        run("git checkout -- src", cwd=SCRATCH)
        rc, out = run("cargo test --offline --test demo 2>&1", cwd=SCRATCH, env=env)
        res["demo_passes_without_patch"] = rc == 0
        if need_release:
            rc2, out2 = run("cargo test --offline --release --test demo 2>&1", cwd=SCRATCH, env=env)
            res["demo_passes_without_patch_release"] = rc2 == 0
        if rc != 0:
            res["demo_output_without_patch"] = out[-600:]
    finally:
        run(f"git -C {REPO} worktree remove --force {SCRATCH}")
        shutil.rmtree(SCRATCH, ignore_errors=True)
    return res

SRC = os.environ.get("SEED_SRC", "/tmp/seedcheck-src")

def detect(seed, checks):
    """Run the snapshot harness (whose path dependency points at SRC, a scratch worktree of /repo
    with the seed applied) - /repo itself is not touched by the bulk matrix."""
    rc, out = run(f"git -C {SRC} checkout -- . && git -C {SRC} apply {seed}/patch.diff")
    if rc != 0:
        return {"error": "patch does not apply to the scratch source: " + out}
    results = {}
    try:
        for c in checks:
            t = time.time()
            try:
                rc, out = run(f"./check {c} --tier quick", cwd=SNAP, timeout=1200)
            except subprocess.TimeoutExpired:
                rc, out = 3, "timeout after 1200 s"
            sigs = re.findall(r"signature=(\S+)", out)
            results[c] = {"exit": rc, "signatures": sigs[:6], "wall_s": round(time.time() - t, 1)}
            if rc == 2:
                results[c]["machinery"] = out[-400:]
    finally:
        run(f"git -C {SRC} checkout -- .")
    return results

SNAP = os.environ.get("SEED_SNAP", "/tmp/seedcheck-verif")

def prepare():
    os.makedirs(SNAP, exist_ok=True)
    run(f"git -C {REPO} worktree remove --force {SRC}")
    shutil.rmtree(SRC, ignore_errors=True)
    run(f"git -C {REPO} worktree add -q --detach {SRC} HEAD")
    run(f"rsync -a --delete {VERIF}/harness/ {SNAP}/harness/")
    run(f"sed -i 's|path = \"/repo\"|path = \"{SRC}\"|' {SNAP}/harness/fpverif/Cargo.toml")
    # the snapshot builds into its own target directory: sharing /verif/target lets two workspaces
    # overwrite each other's target/release/fpverif, which child processes start by path
    run(f"sed -i 's|target-dir = .*|target-dir = \"{SNAP}/target\"|' {SNAP}/harness/.cargo/config.toml")
    if os.path.islink(f"{SNAP}/target"):
        os.unlink(f"{SNAP}/target")
    os.makedirs(f"{SNAP}/target", exist_ok=True)
    shutil.copy(f"{VERIF}/check", f"{SNAP}/check")
    shutil.copy(f"{VERIF}/known_findings.json", f"{SNAP}/known_findings.json")
    rc, out = run("./check C13 --tier quick", cwd=SNAP)
    print("snapshot prepared:", out.strip().splitlines()[-1] if out.strip() else rc)

def main():
    if sys.argv[1] == "--prepare":
        prepare()
        return
    if sys.argv[1] == "--benign":
        # a behaviour-preserving variant: no confirmation step, every check must stay silent
        patch_dir, vid = sys.argv[2], sys.argv[3]
        checks = [f"C{n:02d}" for n in range(1, 21)]
        if "--checks" in sys.argv:
            checks = sys.argv[sys.argv.index("--checks") + 1].split(",")
        if not os.path.exists(f"{SNAP}/check"):
            prepare()
        rc, out = run(f"git -C {SRC} checkout -- . && git -C {SRC} apply {patch_dir}/patch.diff && cd {SRC} && cargo test --offline 2>&1 | grep 'test result' | head -1", env={"CARGO_TARGET_DIR": TARGET})
        suite = out.strip()
        det = detect(patch_dir, checks)
        dest = f"{VERIF}/benign/{vid}"
        os.makedirs(dest, exist_ok=True)
        if len(checks) < 20 and os.path.exists(f"{dest}/meta.json"):
            # a partial re-run: keep the records of the checks not run this time
            try:
                old = json.load(open(f"{dest}/meta.json")).get("detection", {})
                merged = dict(old); merged.update(det); det = merged
            except Exception:
                pass
        alarms = {c: r for c, r in det.items() if isinstance(r, dict) and r.get("exit") != 0}
        if os.path.abspath(patch_dir) != os.path.abspath(dest):
            shutil.copy(f"{patch_dir}/patch.diff", f"{dest}/patch.diff")
            if os.path.exists(f"{patch_dir}/note.md"):
                shutil.copy(f"{patch_dir}/note.md", f"{dest}/note.md")
        json.dump({"variant": vid, "suite": suite, "detection": det, "alarms": sorted(alarms)}, open(f"{dest}/meta.json", "w"), indent=1)
        print(vid, "suite:", suite, "ALARMS:", {c: r.get("signatures") for c, r in alarms.items()})
        return
    seed, sid = sys.argv[1], sys.argv[2]
    checks = [f"C{n:02d}" for n in range(1, 21)]
    if "--checks" in sys.argv:
        checks = sys.argv[sys.argv.index("--checks") + 1].split(",")
    if "--own" in sys.argv:
        checks = [sid.split("-")[0]]
    meta = json.load(open(f"{seed}/meta.json"))
    if isinstance(meta.get("meta"), dict):  # a directory under /verif/seeded: unwrap
        meta = meta["meta"]
    if "--no-confirm" in sys.argv and os.path.exists(f"{VERIF}/seeded/{sid}/meta.json"):
        conf = json.load(open(f"{VERIF}/seeded/{sid}/meta.json")).get("confirmation", {})
    else:
        conf = confirm(seed)
    ok = conf.get("patch_applies") and conf.get("suite_passes_with_patch") and (conf.get("demo_fails_with_patch") or conf.get("demo_fails_with_patch_release")) and conf.get("demo_passes_without_patch") and conf.get("demo_passes_without_patch_release", True)
    out = {"seed": sid, "meta": meta, "confirmation": conf, "confirmed": bool(ok)}
    if ok:
        # evidence/replays of these runs must not overwrite /verif's own: use a scratch root that
        # shares the build (target) and the known-findings list
        # a snapshot of the harness (taken by `seedtest.py --prepare`) so that edits under /verif do
        # not disturb a running batch; it has its own target, evidence and replays directories
        if not os.path.exists(f"{SNAP}/check"):
            prepare()
        det = detect(seed, checks)
        out["detection"] = det
        out["caught_by"] = sorted(c for c, r in det.items() if isinstance(r, dict) and r.get("exit") == 1)
    dest = f"{VERIF}/seeded/{sid}"
    os.makedirs(dest, exist_ok=True)
    # keep results of earlier runs for checks not re-run this time
    if os.path.exists(f"{dest}/meta.json") and "detection" in out and isinstance(out["detection"], dict):
        try:
            old = json.load(open(f"{dest}/meta.json")).get("detection", {})
            if isinstance(old, dict):
                merged = dict(old)
                merged.update(out["detection"])
                out["detection"] = merged
                out["caught_by"] = sorted(c for c, r in merged.items() if isinstance(r, dict) and r.get("exit") == 1)
        except Exception:
            pass
    for f in ("patch.diff", "demo.rs"):
        if os.path.abspath(seed) != os.path.abspath(dest):
            shutil.copy(f"{seed}/{f}", f"{dest}/{f}")
    json.dump(out, open(f"{dest}/meta.json", "w"), indent=1)
    print(json.dumps({k: out[k] for k in ("seed", "confirmed") if k in out}), "caught_by:", out.get("caught_by"))
    if not ok:
        print(json.dumps(conf, indent=1)[:1500])

main()
