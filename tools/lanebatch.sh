#!/bin/bash
# evaluate seeds in a lane of its own (own scratch worktrees, targets and harness snapshot), so that
# several lanes can run side by side: lanebatch.sh <lane> <seed-dir>...
lane=$1; shift
export SEED_SCRATCH=/tmp/seedcheck-$lane SEED_TARGET=/tmp/seedcheck-target-$lane SEED_SRC=/tmp/seedcheck-src-$lane SEED_SNAP=/tmp/seedcheck-verif-$lane
cd /verif
[ -x $SEED_SNAP/check ] || python3 tools/seedtest.py --prepare
for d in "$@"; do
  id=$(echo $d | sed 's|/tmp/wt-\(C[0-9]*\)/seed/\([0-9]*\)|\1-\2|')
  python3 tools/seedtest.py $d $id ${SEEDTEST_ARGS:---own} 2>&1 | tail -2
done
echo LANE-$lane-DONE
