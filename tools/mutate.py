#!/usr/bin/env python3
"""Mechanical mutation run: small token-level mutants of /repo's sources (in a scratch worktree),
each built against a snapshot of the harness; mutants that compile and keep the 45 tests passing
are run through the quick checks that cover the mutated file.  Survivors (no test fails, no check
alarms) are either equivalent mutants or gaps in the checks' menus: they are listed for inspection.

usage: mutate.py [--n 150] [--seed 1] [--files a.rs,b.rs]
  results: /verif/mutation/results.jsonl (one line per mutant), summary printed at the end
"""
import json, os, random, re, shutil, subprocess, sys, time

REPO, VERIF = "/repo", "/verif"
SRC, SNAP, TTARGET = "/tmp/mut-src", "/tmp/mut-verif", "/tmp/mut-test-target"

FILE_CHECKS = {
    "src/find_parser/mod.rs": ["C01", "C05", "C06", "C13", "C18", "C03"],
    "src/find_parser/prelude.rs": ["C05", "C06", "C07", "C18", "C03"],
    "src/find_parser/precedence.rs": ["C01", "C06", "C03"],
    "src/find_parser/error.rs": ["C18", "C03"],
    "src/find_parser/format.rs": ["C14", "C05", "C03"],
    "src/find_parser/size.rs": ["C07", "C05", "C03"],
    "src/find_parser/timespec.rs": ["C07", "C05", "C03"],
    "src/find_parser/permission.rs": ["C08", "C05", "C03"],
    "src/find_parser/filetype.rs": ["C05", "C18", "C02"],
    "src/permission_flags.rs": ["C08", "C02"],
    "src/ast.rs": ["C19", "C02", "C07", "C09", "C10"],
    "src/lib.rs": ["C13", "C07", "C15"],
    "src/scheme/mod.rs": ["C20", "C09", "C04", "C12", "C13"],
    "src/scheme/manager.rs": ["C10", "C11", "C16", "C02", "C04"],
    "src/scheme/target_scheme.rs": ["C02", "C04", "C12", "C07", "C08", "C10"],
    "src/scheme/error.rs": ["C12"],
}

OPS = [
    (r" == ", " != "), (r" != ", " == "), (r" <= ", " < "), (r" >= ", " > "), (r" < ", " <= "), (r" > ", " >= "),
    (r" && ", " || "), (r" \|\| ", " && "), (r" \+ ", " - "), (r" - ", " + "), (r" \* ", " + "),
    (r"\btrue\b", "false"), (r"\bfalse\b", "true"),
    (r"'\\n'", r"'\\0'"), (r"'\\0'", r"'\\n'"),
    (r"\.is_some\(\)", ".is_none()"), (r"\.is_none\(\)", ".is_some()"), (r"\.is_empty\(\)", ".len() == 1"),
    (r"Some\((\w+)\)", r"None"),
]


def run(cmd, cwd=None, env=None, timeout=1800):
    e = dict(os.environ)
    e["CARGO_NET_OFFLINE"] = "true"
    if env:
        e.update(env)
    try:
        p = subprocess.run(cmd, cwd=cwd, env=e, shell=True, capture_output=True, text=True, timeout=timeout)
        return p.returncode, p.stdout + p.stderr
    except subprocess.TimeoutExpired:
        return 124, "timeout"


def candidates(files):
    out = []
    for f in files:
        path = f"{REPO}/{f}"
        lines = open(path).read().split("\n")
        in_tests = False
        for i, l in enumerate(lines):
            if "#[cfg(test)]" in l or l.startswith("#[test]"):
                in_tests = True  # unit tests sit at the end of the files
            s = l.strip()
            if in_tests or not s or s.startswith("//") or s.startswith("#[") or s.startswith("use ") or "log::" in l or "debug!" in l:
                continue
            code = l.split("//")[0]
            for k, (pat, rep) in enumerate(OPS):
                for m in re.finditer(pat, code):
                    out.append((f, i, k, m.start()))
            # integer literals (decimal, not part of identifiers / floats), +1
            for m in re.finditer(r"(?<![\w.'])(\d+)(?![\w.'])", code):
                out.append((f, i, -1, m.start()))
            for m in re.finditer(r"(?<![\w.'])0o([0-7]+)(?![\w.'])", code):
                out.append((f, i, -2, m.start()))
            # copy-paste slips: the right-hand side of a match arm / the value of a table row
            # taken from the row above
            if i + 1 < len(lines) and "structural" in os.environ.get("MUT_OPS", "structural"):
                a, b = lines[i], lines[i + 1]
                ma, mb = re.match(r"^(\s*)(.+?) => (.+),\s*$", a), re.match(r"^(\s*)(.+?) => (.+),\s*$", b)
                if ma and mb and ma.group(3) != mb.group(3) and "{" not in ma.group(3) and "{" not in mb.group(3):
                    out.append((f, i + 1, -3, 0))
                va, vb = re.search(r"\.(value|map)\((.+)\)", a), re.search(r"\.(value|map)\((.+)\)", b)
                if va and vb and va.group(2) != vb.group(2) and a.strip().endswith(",") and b.strip().endswith(","):
                    out.append((f, i + 1, -4, 0))
    return out


def apply(f, i, k, pos):
    path = f"{SRC}/{f}"
    lines = open(path).read().split("\n")
    l = lines[i]
    if k >= 0:
        pat, rep = OPS[k]
        m = re.compile(pat).match(l, pos)
        if not m:
            return None
        new = l[:pos] + m.expand(rep) + l[m.end():]
    elif k == -3:
        prev = re.match(r"^(\s*)(.+?) => (.+),\s*$", lines[i - 1])
        cur = re.match(r"^(\s*)(.+?) => (.+),\s*$", l)
        new = f"{cur.group(1)}{cur.group(2)} => {prev.group(3)},"
    elif k == -4:
        prev = re.search(r"\.(value|map)\((.+)\)", lines[i - 1])
        cur = re.search(r"\.(value|map)\((.+)\)", l)
        new = l[: cur.start(2)] + prev.group(2) + l[cur.end(2):]
    elif k == -1:
        m = re.compile(r"\d+").match(l, pos)
        new = l[:pos] + str(int(m.group(0)) + 1) + l[m.end():]
    else:
        m = re.compile(r"0o[0-7]+").match(l, pos)
        v = int(m.group(0)[2:], 8)
        new = l[:pos] + "0o%o" % (v ^ 1) + l[m.end():]
    if new == l:
        return None
    lines[i] = new
    open(path, "w").write("\n".join(lines))
    return (l.strip(), new.strip())


def prepare():
    run(f"git -C {REPO} worktree remove --force {SRC}")
    shutil.rmtree(SRC, ignore_errors=True)
    run(f"git -C {REPO} worktree add -q --detach {SRC} HEAD")
    os.makedirs(SNAP, exist_ok=True)
    run(f"rsync -a --delete {VERIF}/harness/ {SNAP}/harness/")
    run(f"sed -i 's|path = \"/repo\"|path = \"{SRC}\"|' {SNAP}/harness/fpverif/Cargo.toml")
    run(f"sed -i 's|target-dir = .*|target-dir = \"{SNAP}/target\"|' {SNAP}/harness/.cargo/config.toml")
    shutil.copy(f"{VERIF}/check", f"{SNAP}/check")
    shutil.copy(f"{VERIF}/known_findings.json", f"{SNAP}/known_findings.json")
    rc, out = run("./check C13 --tier quick && ./check C17 --tier quick --replay /dev/null; true", cwd=SNAP)
    print("snapshot:", out.strip().splitlines()[-1][:120] if out.strip() else rc, flush=True)


def main():
    n = int(sys.argv[sys.argv.index("--n") + 1]) if "--n" in sys.argv else 150
    seed = int(sys.argv[sys.argv.index("--seed") + 1]) if "--seed" in sys.argv else 1
    files = sys.argv[sys.argv.index("--files") + 1].split(",") if "--files" in sys.argv else list(FILE_CHECKS)
    prepare()
    cands = candidates(files)
    if os.environ.get("MUT_ONLY") == "structural":
        cands = [c for c in cands if c[2] in (-3, -4)]
    random.Random(seed).shuffle(cands)
    # spread over files: round-robin by file
    by = {}
    for c in cands:
        by.setdefault(c[0], []).append(c)
    order = []
    while len(order) < n and any(by.values()):
        for f in list(by):
            if by[f]:
                order.append(by[f].pop())
    os.makedirs(f"{VERIF}/mutation", exist_ok=True)
    res_path = f"{VERIF}/mutation/results.jsonl"
    stats = {"stillborn": 0, "killed_by_suite": 0, "killed_by_checks": 0, "survived": 0}
    for (f, i, k, pos) in order[:n]:
        run(f"git -C {SRC} checkout -- .")
        ch = apply(f, i, k, pos)
        if not ch:
            continue
        rec = {"file": f, "line": i + 1, "before": ch[0], "after": ch[1]}
        t0 = time.time()
        rc, out = run(f"cd {SNAP}/harness && CARGO_TARGET_DIR={SNAP}/target cargo build --offline -q --release -p fpverif 2>&1 | tail -3")
        if "error" in out:
            rec["outcome"] = "stillborn"
        else:
            rc, out = run("cargo test --offline 2>&1 | grep 'test result' | head -1", cwd=SRC, env={"CARGO_TARGET_DIR": TTARGET})
            if "45 passed; 0 failed" not in out:
                rec["outcome"] = "killed_by_suite"
            else:
                killers = []
                for c in FILE_CHECKS[f]:
                    if c in ("C03", "C17"):
                        run(f"cd {SNAP}/harness && CARGO_TARGET_DIR={SNAP}/target cargo build --offline -q -p fpverif")
                    rc, out = run(f"VERIF_ROOT={SNAP} {SNAP}/target/release/fpverif {c} --tier quick --inner", cwd=SNAP, timeout=900)
                    if rc == 1 or "VIOLATION" in out:
                        sig = re.findall(r"signature=(\S+)", out)
                        killers.append({"check": c, "signature": sig[0] if sig else "?"})
                        break
                    if rc not in (0, 1):
                        killers.append({"check": c, "signature": f"exit {rc}"})
                        break
                rec["outcome"] = "killed_by_checks" if killers else "survived"
                rec["killers"] = killers
                rec["checks_run"] = FILE_CHECKS[f]
        rec["wall_s"] = round(time.time() - t0, 1)
        stats[rec["outcome"]] += 1
        open(res_path, "a").write(json.dumps(rec) + "\n")
        print(json.dumps(rec)[:300], flush=True)
    run(f"git -C {SRC} checkout -- .")
    print("SUMMARY", json.dumps(stats), flush=True)


main()
